------------------------------ MODULE Parallel ------------------------------
(***************************************************************************)
(* C13: a parse result depends only on the bytes parsed - not on what was  *)
(* parsed before (history), not on what is being parsed at the same time   *)
(* (threads).                                                              *)
(*                                                                         *)
(* Two threads A and B, each with a WORK LIST of payload ids that it       *)
(* decodes one after the other (so a thread sees a history), each with a   *)
(* private instance of the Decode machine; the definition and lookup       *)
(* tables are a shared variable `tables` that no action may change.  TLC   *)
(* explores every work-list pair and every interleaving of the decode      *)
(* steps.                                                                  *)
(*   TablesConst  [][tables' = tables]                                     *)
(*   HistoryFree  whatever thread, position in the work list and           *)
(*                interleaving: the same payload id always yields the same *)
(*                outcome and attribute list                               *)
(* `sched` (hidden by the VIEW in exhaustive runs) records which thread    *)
(* moved: simulation runs print it as SCHEDULES for the deterministic      *)
(* scheduler that drives the REAL code (harness/parallel_run.py).          *)
(***************************************************************************)
EXTENDS Integers, Sequences, FiniteSets, TLC, Json, IOUtils

Tab == TLCEval(JsonDeserialize(IOEnv.VERIF_TABLES))
PFields == Tab.fields
PDefs   == Tab.defs
PTable  == Tab.table
Payloads == Tab.payloads       \* sequence of payloads (byte sequences)

CONSTANT MaxWork

VARIABLES tables,
          workA, workB,         \* remaining payload ids
          curA, curB,           \* payload id being decoded (0: none)
          done,                 \* set of <<id, outcome, attrs>> results produced so far
          sched,                \* history: sequence of "A" / "B"
          pA, bitsA, stackA, offA, idxA, attrsA, intsA, satsA, sigsA, cellsA, mapsOkA, identA, midA, stA,
          pB, bitsB, stackB, offB, idxB, attrsB, intsB, satsB, sigsB, cellsB, mapsOkB, identB, midB, stB

A == INSTANCE Decode WITH Fields <- PFields, Defs <- PDefs, TableOf <- PTable,
       p <- pA, bits <- bitsA, stack <- stackA, off <- offA, idx <- idxA, attrs <- attrsA, ints <- intsA,
       sats <- satsA, sigs <- sigsA, cells <- cellsA, mapsOk <- mapsOkA, ident <- identA, mid <- midA, st <- stA
B == INSTANCE Decode WITH Fields <- PFields, Defs <- PDefs, TableOf <- PTable,
       p <- pB, bits <- bitsB, stack <- stackB, off <- offB, idx <- idxB, attrs <- attrsB, ints <- intsB,
       sats <- satsB, sigs <- sigsB, cells <- cellsB, mapsOk <- mapsOkB, ident <- identB, mid <- midB, st <- stB

varsA == <<pA, bitsA, stackA, offA, idxA, attrsA, intsA, satsA, sigsA, cellsA, mapsOkA, identA, midA, stA>>
varsB == <<pB, bitsB, stackB, offB, idxB, attrsB, intsB, satsB, sigsB, cellsB, mapsOkB, identB, midB, stB>>
shared == <<tables, workA, workB, curA, curB, done>>
pvars == <<shared, sched, varsA, varsB>>
View == <<shared, varsA, varsB>>

Ids == 1 .. Len(Payloads)
WorkLists == UNION {[1 .. n -> Ids] : n \in 0 .. MaxWork}

Init ==
  /\ tables = [fields |-> PFields, defs |-> PDefs]
  /\ workA \in WorkLists /\ workB \in WorkLists
  /\ curA = 0 /\ curB = 0 /\ done = {} /\ sched = << >>
  /\ A!LoadSt(<<0, 0>>, "idle") /\ B!LoadSt(<<0, 0>>, "idle")

StartA == /\ curA = 0 /\ workA # << >>
          /\ A!LoadNextSt(Payloads[Head(workA)], "begin")
          /\ curA' = Head(workA) /\ workA' = Tail(workA)
          /\ sched' = Append(sched, "A")
          /\ UNCHANGED <<tables, workB, curB, done, varsB>>
StepA ==  /\ curA # 0 /\ A!DecodeNext
          /\ sched' = Append(sched, "A")
          /\ UNCHANGED <<shared, varsB>>
FinishA == /\ curA # 0 /\ A!Terminal
           /\ done' = done \cup {<<curA, stA, attrsA>>}
           /\ curA' = 0
           /\ sched' = Append(sched, "A")
           /\ UNCHANGED <<tables, workA, workB, curB, varsA, varsB>>

StartB == /\ curB = 0 /\ workB # << >>
          /\ B!LoadNextSt(Payloads[Head(workB)], "begin")
          /\ curB' = Head(workB) /\ workB' = Tail(workB)
          /\ sched' = Append(sched, "B")
          /\ UNCHANGED <<tables, workA, curA, done, varsA>>
StepB ==  /\ curB # 0 /\ B!DecodeNext
          /\ sched' = Append(sched, "B")
          /\ UNCHANGED <<shared, varsA>>
FinishB == /\ curB # 0 /\ B!Terminal
           /\ done' = done \cup {<<curB, stB, attrsB>>}
           /\ curB' = 0
           /\ sched' = Append(sched, "B")
           /\ UNCHANGED <<tables, workA, workB, curA, varsA, varsB>>

AllDone == workA = << >> /\ workB = << >> /\ curA = 0 /\ curB = 0
Report == /\ AllDone /\ PrintT(<<"SCHED", sched>>) /\ UNCHANGED pvars

Next == StartA \/ StepA \/ FinishA \/ StartB \/ StepB \/ FinishB
Spec == Init /\ [][Next]_pvars

TablesConst == [][tables' = tables]_pvars
\* the same payload never has two different results - across threads, histories and interleavings
HistoryFree == \A r1, r2 \in done : r1[1] = r2[1] => r1 = r2
\* printed once per terminal state of a behaviour (used in simulation mode)
ScheduleOut == AllDone => PrintT(<<"SCHED", sched>>)
=============================================================================
