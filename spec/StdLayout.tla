----------------------------- MODULE StdLayout -----------------------------
(***************************************************************************)
(* Pinned oracle (written from RTCM 10403.3 and IGS SSR v1.00 field lists, *)
(* NOT derived from the repository): for every message type the length in  *)
(* bits as                                                                 *)
(*        c0 + N * c1 + N * M * c2 + (all optional groups present) * o     *)
(* where N is the value of every top-level repeat counter and M the value  *)
(* of every nested repeat counter.  Types marked prov = "tree" could not   *)
(* be cross-checked from memory of the standard: for them the value is the *)
(* one of the tree at the pinned commit and the check is a regression      *)
(* oracle only (DESIGN 3.6).  A type that is not listed gets no verdict.   *)
(***************************************************************************)
EXTENDS Integers

L(c0, c1, c2, o, prov) == [c0 |-> c0, c1 |-> c1, c2 |-> c2, o |-> o, prov |-> prov]

StdPlain ==
  [i \in {"1001","1002","1003","1004","1005","1006","1007","1008","1009","1010","1011","1012","1013","1014",
          "1015","1016","1017","1019","1020","1021","1022","1023","1024","1025","1026","1027","1029","1030",
          "1031","1032","1033","1034","1035","1037","1038","1039","1041","1042","1044","1045","1046",
          "1057","1058","1059","1060","1061","1062","1063","1064","1065","1066","1067","1068","1230",
          "1300","1301","1302","1303","1304","1305"} |->
   CASE i = "1001" -> L(64, 58, 0, 0, "std")   [] i = "1002" -> L(64, 74, 0, 0, "std")
     [] i = "1003" -> L(64, 101, 0, 0, "std")  [] i = "1004" -> L(64, 125, 0, 0, "std")
     [] i = "1005" -> L(152, 0, 0, 0, "std")   [] i = "1006" -> L(168, 0, 0, 0, "std")
     [] i = "1007" -> L(40, 8, 0, 0, "std")    [] i = "1008" -> L(48, 16, 0, 0, "std")
     [] i = "1009" -> L(61, 64, 0, 0, "std")   [] i = "1010" -> L(61, 79, 0, 0, "std")
     [] i = "1011" -> L(61, 107, 0, 0, "std")  [] i = "1012" -> L(61, 130, 0, 0, "std")
     [] i = "1013" -> L(70, 29, 0, 0, "std")   [] i = "1014" -> L(117, 0, 0, 0, "std")
     [] i = "1015" -> L(76, 28, 0, 0, "std")   [] i = "1016" -> L(76, 36, 0, 0, "std")
     [] i = "1017" -> L(76, 53, 0, 0, "std")   [] i = "1019" -> L(488, 0, 0, 0, "std")
     [] i = "1020" -> L(360, 0, 0, 0, "std")   [] i = "1021" -> L(412, 16, 0, 0, "std")
     [] i = "1022" -> L(517, 16, 0, 0, "tree") [] i = "1023" -> L(578, 0, 0, 0, "std")
     [] i = "1024" -> L(590, 0, 0, 0, "tree")  [] i = "1025" -> L(196, 0, 0, 0, "std")
     [] i = "1026" -> L(234, 0, 0, 0, "std")   [] i = "1027" -> L(258, 0, 0, 0, "std")
     [] i = "1029" -> L(72, 8, 0, 0, "std")    [] i = "1030" -> L(56, 49, 0, 0, "std")
     [] i = "1031" -> L(53, 49, 0, 0, "std")   [] i = "1032" -> L(156, 0, 0, 0, "std")
     [] i = "1033" -> L(72, 40, 0, 0, "std")   [] i = "1034" -> L(49, 66, 0, 0, "std")
     [] i = "1035" -> L(46, 66, 0, 0, "std")   [] i = "1037" -> L(73, 28, 0, 0, "std")
     [] i = "1038" -> L(73, 36, 0, 0, "std")   [] i = "1039" -> L(73, 53, 0, 0, "std")
     [] i = "1041" -> L(482, 0, 0, 0, "std")   [] i = "1042" -> L(511, 0, 0, 0, "std")
     [] i = "1044" -> L(485, 0, 0, 0, "std")   [] i = "1045" -> L(496, 0, 0, 0, "std")
     [] i = "1046" -> L(504, 0, 0, 0, "std")
     [] i = "1057" -> L(68, 135, 0, 0, "std")  [] i = "1058" -> L(67, 76, 0, 0, "std")
     [] i = "1059" -> L(67, 11, 19, 0, "std")  [] i = "1060" -> L(68, 205, 0, 0, "std")
     [] i = "1061" -> L(67, 12, 0, 0, "std")   [] i = "1062" -> L(67, 28, 0, 0, "std")
     [] i = "1063" -> L(65, 134, 0, 0, "std")  [] i = "1064" -> L(64, 75, 0, 0, "std")
     [] i = "1065" -> L(64, 10, 19, 0, "std")  [] i = "1066" -> L(65, 204, 0, 0, "std")
     [] i = "1067" -> L(64, 11, 0, 0, "std")   [] i = "1068" -> L(64, 27, 0, 0, "std")
     [] i = "1230" -> L(32, 0, 0, 64, "std")
     [] i = "1300" -> L(33, 8, 0, 0, "tree")   [] i = "1301" -> L(362, 16, 0, 0, "tree")
     [] i = "1302" -> L(26, 13, 8, 0, "tree")  [] i = "1303" -> L(56, 49, 0, 0, "tree")
     [] i = "1304" -> L(56, 49, 0, 0, "tree")  [] i = "1305" -> L(56, 47, 0, 0, "tree")]

\* IGS SSR v1.00 (sub-type families: last digit 1..7 of 4076_0x1 .. 4076_12x)
StdIgs(k) ==
  CASE k = 1 -> L(79, 135, 0, 0, "std")   \* orbit
    [] k = 2 -> L(78, 76, 0, 0, "std")    \* clock
    [] k = 3 -> L(79, 205, 0, 0, "std")   \* combined orbit and clock
    [] k = 4 -> L(78, 28, 0, 0, "std")    \* high-rate clock
    [] k = 5 -> L(78, 11, 19, 0, "std")   \* code bias
    [] k = 6 -> L(80, 28, 32, 0, "std")   \* phase bias
    [] k = 7 -> L(78, 12, 0, 0, "std")    \* URA
\* 4076_201 (VTEC): 83 + layers * (16 + 16 * (Ncos + Nsin))
StdVtecHeader == 83
StdVtecLayer == 16
StdVtecCoef == 16
\* number of cosine / sine coefficients of a layer of degree N and order M (M <= N), IGS SSR v1.00
VtecCos(N, M) == (((N + 1) * (N + 2)) \div 2) - (((N - M) * (N - M + 1)) \div 2)
VtecSin(N, M) == VtecCos(N, M) - (N + 1)
VtecBits(Lyr, N, M) == StdVtecHeader + Lyr * (StdVtecLayer + StdVtecCoef * (VtecCos(N, M) + VtecSin(N, M)))

\* MSM1..7: 169 + Nsat*Nsig + Nsat*S(level) + Ncell*C(level)
MsmHeader == 169
MsmSat(level)  == CASE level \in {1, 2, 3} -> 10 [] level \in {4, 6} -> 18 [] level \in {5, 7} -> 36
MsmCell(level) == CASE level = 1 -> 15 [] level = 2 -> 27 [] level = 3 -> 42 [] level = 4 -> 48
                    [] level = 5 -> 63 [] level = 6 -> 65 [] level = 7 -> 80
=============================================================================
