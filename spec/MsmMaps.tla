------------------------------ MODULE MsmMaps ------------------------------
(***************************************************************************)
(* The MSM satellite / signal / cell mapping stated twice.                 *)
(*                                                                         *)
(* Declarative (what C09 says): the i-th satellite is the i-th set bit of  *)
(* the satellite mask (MSB first, IDs from 1), likewise signals; the k-th  *)
(* cell is the k-th set bit of the Nsat x Nsig cell mask read              *)
(* satellite-major.  This is what Decode.tla uses (SetPositions, CellsOf). *)
(*                                                                         *)
(* Operational (what _getsatcellmaps does): three counting loops that      *)
(* shift the masks as integers.  TLC checks that the two agree for ALL     *)
(* masks up to SatW x SigW (MC_MsmMaps), so the judges may use the         *)
(* declarative form.                                                       *)
(***************************************************************************)
EXTENDS Integers, Sequences, FiniteSets, Bits

\* ---- declarative ---------------------------------------------------------
DSats(satmask) == SetPositions(satmask)
DSigs(sigmask) == SetPositions(sigmask)
DCells(cellmask, nsig) ==
  LET pos == SetPositions(cellmask)
  IN  [k \in 1 .. Len(pos) |-> << ((pos[k] - 1) \div nsig) + 1, ((pos[k] - 1) % nsig) + 1 >>]

\* ---- operational (loop-shaped) -------------------------------------------
\* masks as integers, as the implementation holds them
IntOf(b) == ToInt(b)
BitOfInt(v, sh) == (v \div (2 ^ sh)) % 2          \* v >> sh & 1

\* for idx in range(W + 1): if mask >> (W - idx) & 1: append idx   (idx = 0 never set)
RECURSIVE LoopIds(_, _, _)
LoopIds(v, w, i) ==
  IF i > w THEN << >>
  ELSE IF BitOfInt(v, w - i) = 1 THEN << i >> \o LoopIds(v, w, i + 1)
       ELSE LoopIds(v, w, i + 1)
OSats(satmask) == LoopIds(IntOf(satmask), Len(satmask), 0)
OSigs(sigmask) == LoopIds(IntOf(sigmask), Len(sigmask), 0)

\* for sat in range(nsat): for sig in range(nsig): idx += 1; if cellmask >> (ncells-idx) & 1: append
RECURSIVE LoopCells(_, _, _, _, _)
LoopCells(v, nsat, nsig, sat, sig) ==
  IF sat >= nsat THEN << >>
  ELSE IF sig >= nsig THEN LoopCells(v, nsat, nsig, sat + 1, 0)
  ELSE LET id == sat * nsig + sig + 1
           rest == LoopCells(v, nsat, nsig, sat, sig + 1)
       IN  IF BitOfInt(v, nsat * nsig - id) = 1 THEN << <<sat + 1, sig + 1>> >> \o rest ELSE rest
OCells(cellmask, nsat, nsig) == LoopCells(IntOf(cellmask), nsat, nsig, 0, 0)
=============================================================================
