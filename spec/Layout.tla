------------------------------- MODULE Layout -------------------------------
(***************************************************************************)
(* The definition tables against the standards (C10): TLC evaluates        *)
(* predicates over the exported AST of EVERY definition (one initial state *)
(* per identity, so coverage counts are per identity).                     *)
(*                                                                         *)
(*   WellFormed       no malformed node (e.g. a set where a dict belongs)  *)
(*   FieldsDefined    every named field is a defined data field with a     *)
(*                    well-formed entry                                    *)
(*   CountersPrecede  every repeat counter / condition names a field that  *)
(*                    is decoded EARLIER, at the nesting depth its "+n"    *)
(*                    suffix announces, unsigned and unscaled              *)
(*   BitsMatchStd     the symbolic bit count equals the pinned standard    *)
(*                    formula for every count vector in a box              *)
(*   SiblingsAgree    combined = orbit ++ clock; extended contains basic;  *)
(*                    one MSM layout per level; 4076 families identical    *)
(*   DispatchTotal    every key is reachable through the identity-range    *)
(*                    dispatch and has a description                       *)
(***************************************************************************)
EXTENDS Integers, Sequences, FiniteSets, TLC, StdLayout, Json, IOUtils

Tables == TLCEval(JsonDeserialize(IOEnv.VERIF_TABLES))
Fields == Tables.fields
Defs   == Tables.defs
TableOf == Tables.table
Hdr    == Tables.hdr            \* identity -> [mid, sub]
MsgIds == {Tables.msgids[i] : i \in 1 .. Len(Tables.msgids)}

VARIABLE id
Init == id \in DOMAIN Defs
Next == UNCHANGED id
Spec == Init /\ [][Next]_id

Ast == Defs[id]
---------------------------------------------------------------------------
RECURSIVE AllNodes(_)
AllNodes(body) ==
  UNION {{body[i]} \cup (IF body[i].k \in {"grp", "opt"} THEN AllNodes(body[i].body) ELSE {}) : i \in 1 .. Len(body)}

WellFormed == \A n \in AllNodes(Ast) : n.k \in {"fld", "grp", "opt"}

FieldsDefined ==
  \A n \in AllNodes(Ast) : n.k = "fld" => (n.n \in DOMAIN Fields /\ Fields[n.n].t # "BAD" /\ Fields[n.n].d)

\* ---- counters -----------------------------------------------------------------
Derived == {"NSat", "NSig", "NCell", "_NHarmCoeffC", "_NHarmCoeffS"}
Source(c) == CASE c = "NSat" -> {"DF394"} [] c = "NSig" -> {"DF395"} [] c = "NCell" -> {"DF394", "DF395", "DF396"}
               [] c \in {"_NHarmCoeffC", "_NHarmCoeffS"} -> {"IDF037", "IDF038"} [] OTHER -> {c}

CounterField(f) == f \in DOMAIN Fields /\ Fields[f].t \in {"UINT", "BIT"} /\ ~Fields[f].sc /\ Fields[f].w <= 24

\* def: function name -> depth at which the field was decoded (earlier on this path)
RECURSIVE Precede(_, _, _)
Precede(body, depth, def) ==
  IF body = << >> THEN TRUE
  ELSE LET n == Head(body) IN
       CASE n.k = "fld" -> Precede(Tail(body), depth, (n.n :> depth) @@ def)
         [] n.k = "grp" ->
              /\ (n.ct = "attr" =>
                    /\ \A s \in Source(n.ca) : s \in DOMAIN def /\ (n.ca \in Derived \/ CounterField(s))
                    /\ (n.ca \notin Derived => def[n.ca] = n.nest /\ n.nest <= depth)
                    /\ (n.ca \in {"_NHarmCoeffC", "_NHarmCoeffS"} => depth >= 1))
              /\ (n.ct = "fixed" => n.cn >= 0)
              /\ Precede(n.body, depth + 1, def)
              /\ Precede(Tail(body), depth, def)
         [] n.k = "opt" ->
              /\ n.ca \in DOMAIN def /\ CounterField(n.ca) /\ def[n.ca] = 0
              /\ Precede(n.body, depth, def)
              /\ Precede(Tail(body), depth, def)
         [] OTHER -> FALSE
CountersPrecede == WellFormed => Precede(Ast, 0, << >>)

\* ---- bit counts -----------------------------------------------------------------
\* env: n top-level counters, m nested counters, opt (all optional groups present?),
\* nsat, nsig, ncell, nc, ns
RECURSIVE Bits(_, _, _)
Count(n, depth, env) ==
  IF n.ct = "fixed" THEN n.cn
  ELSE CASE n.ca = "NSat" -> env.nsat [] n.ca = "NCell" -> env.ncell
         [] n.ca = "_NHarmCoeffC" -> env.nc [] n.ca = "_NHarmCoeffS" -> env.ns
         [] OTHER -> IF depth = 0 THEN env.n ELSE env.m
Bits(body, depth, env) ==
  IF body = << >> THEN 0
  ELSE LET n == Head(body)
           here == CASE n.k = "fld" -> IF n.n = "DF396" THEN env.nsat * env.nsig
                                       ELSE IF n.n \in DOMAIN Fields THEN Fields[n.n].w ELSE 0
                     [] n.k = "grp" -> Count(n, depth, env) * Bits(n.body, depth + 1, env)
                     [] n.k = "opt" -> IF env.opt THEN Bits(n.body, depth, env) ELSE 0
                     [] OTHER -> 0
       IN  here + Bits(Tail(body), depth, env)

Env0 == [n |-> 0, m |-> 0, opt |-> FALSE, nsat |-> 0, nsig |-> 0, ncell |-> 0, nc |-> 0, ns |-> 0]
Mid == Hdr[id].mid
Sub == Hdr[id].sub

Box == {0, 1, 2, 5}
PlainOK(s) ==
  \A N \in Box, M \in {0, 1, 3}, O \in BOOLEAN :
     Bits(Ast, 0, [Env0 EXCEPT !.n = N, !.m = M, !.opt = O])
        = s.c0 + N * s.c1 + N * M * s.c2 + (IF O THEN s.o ELSE 0)

MsmOK ==
  LET lvl == Mid % 10 IN
  \A a \in {0, 1, 3, 64}, b \in {0, 1, 2, 32}, c \in {0, 1, 7, 64} :
     Bits(Ast, 0, [Env0 EXCEPT !.nsat = a, !.nsig = b, !.ncell = c])
        = MsmHeader + a * b + a * MsmSat(lvl) + c * MsmCell(lvl)

VtecOK ==
  \A Lyr \in {1, 2, 4}, C \in {0, 1, 3, 153}, S \in {0, 2, 136} :
     Bits(Ast, 0, [Env0 EXCEPT !.n = Lyr, !.nc = C, !.ns = S])
        = StdVtecHeader + Lyr * (StdVtecLayer + StdVtecCoef * (C + S))

BitsMatchStd ==
  WellFormed =>
    IF TableOf[id] = "msm" THEN (Mid \div 10 \in 107 .. 113 /\ Mid % 10 \in 1 .. 7 => MsmOK)
    ELSE IF TableOf[id] = "igs"
         THEN IF Sub = 201 THEN VtecOK
              ELSE (Sub % 20 \in 1 .. 7 /\ Sub \div 20 \in 1 .. 6 => PlainOK(StdIgs(Sub % 20)))
    ELSE (id \in DOMAIN StdPlain => PlainOK(StdPlain[id]))

\* the pinned length for concrete count vectors (printed for the behavioural binding):
\* plain <<N, M>> (optional groups present); MSM <<nsat, nsig, ncell>>; VTEC <<layers, degree, order>>
PlainVecs == << <<0, 0>>, <<1, 1>>, <<2, 1>>, <<5, 3>>, <<15, 1>>, <<31, 2>>, <<63, 0>>, <<255, 0>> >>
MsmVecs   == << <<3, 2, 4>>, <<1, 1, 1>>, <<8, 4, 20>>, <<2, 3, 0>>, <<16, 4, 10>>, <<8, 8, 64>>, <<64, 1, 3>>, <<2, 32, 5>> >>    \* the last four: Nsat x Nsig = 64, the legal maximum
VtecVecs  == << <<1, 1, 1>>, <<1, 3, 2>>, <<2, 4, 1>>, <<1, 16, 16>>, <<1, 16, 3>>, <<3, 2, 2>>, <<4, 5, 4>> >>
IsMsm  == TableOf[id] = "msm" /\ Mid \div 10 \in 107 .. 113 /\ Mid % 10 \in 1 .. 7
IsIgs  == TableOf[id] = "igs" /\ Sub # 201 /\ Sub % 20 \in 1 .. 7 /\ Sub \div 20 \in 1 .. 6
PlainStd == IF IsIgs THEN StdIgs(Sub % 20) ELSE StdPlain[id]
Vecs ==
  IF IsMsm THEN MsmVecs
  ELSE IF TableOf[id] = "igs" /\ Sub = 201 THEN VtecVecs
  ELSE IF IsIgs \/ (TableOf[id] = "get" /\ id \in DOMAIN StdPlain) THEN PlainVecs
  ELSE << >>
StdAt(v) ==
  IF IsMsm THEN MsmHeader + v[1] * v[2] + v[1] * MsmSat(Mid % 10) + v[3] * MsmCell(Mid % 10)
  ELSE IF TableOf[id] = "igs" /\ Sub = 201 THEN VtecBits(v[1], v[2], v[3])
  ELSE LET s == PlainStd IN s.c0 + v[1] * s.c1 + v[1] * v[2] * s.c2 + s.o

\* which oracle decided (for the evidence)
Verdict ==
  IF TableOf[id] = "msm" THEN "msm" ELSE IF TableOf[id] = "igs" THEN "igs"
  ELSE IF id \in DOMAIN StdPlain THEN StdPlain[id].prov ELSE "unlisted"

PrintStd == \A k \in 1 .. Len(Vecs) : PrintT(<<"STD", id, k, Vecs[k], StdAt(Vecs[k]), Verdict>>)
PrintNone == Vecs = << >> => PrintT(<<"STD", id, 0, << >>, -1, Verdict>>)

\* ---- dispatch ---------------------------------------------------------------------
RangeTable(m) == IF m \in 1070 .. 1229 THEN "msm" ELSE IF m = 4076 THEN "igs" ELSE "get"
DispatchTotal ==
  /\ TableOf[id] = RangeTable(Mid)                 \* reachable through the identity-range dispatch
  /\ (TableOf[id] # "igs" => id \in MsgIds)        \* has a description
  /\ Len(Ast) >= 1 /\ Ast[1].k = "fld" /\ Ast[1].n = "DF002"   \* starts with the message number

\* ---- siblings ---------------------------------------------------------------------
Sig(f) == IF f \in DOMAIN Fields THEN <<Fields[f].t, Fields[f].w, Fields[f].sc>> ELSE <<"?", 0, FALSE>>
\* flattened signature of a body (groups contribute a marker and their body)
RECURSIVE Flat(_)
Flat(body) ==
  IF body = << >> THEN << >>
  ELSE LET n == Head(body) IN
       (CASE n.k = "fld" -> << Sig(n.n) >>
          [] n.k = "grp" -> << <<"grp", n.ct, n.nest>> >> \o Flat(n.body) \o << <<"end">> >>
          [] n.k = "opt" -> << <<"opt", n.cv>> >> \o Flat(n.body) \o << <<"end">> >>
          [] OTHER -> << <<"bad">> >>) \o Flat(Tail(body))
RECURSIVE Names(_)
Names(body) ==
  IF body = << >> THEN << >>
  ELSE LET n == Head(body) IN
       (IF n.k = "fld" THEN << n.n >> ELSE IF n.k \in {"grp", "opt"} THEN Names(n.body) ELSE << >>) \o Names(Tail(body))

\* the (first) repeat-group body of a definition
GroupBody(ident) ==
  LET a == Defs[ident]
      G == {i \in 1 .. Len(a) : a[i].k = "grp"}
  IN  IF G = {} THEN << >> ELSE a[CHOOSE i \in G : \A j \in G : i <= j].body

RECURSIVE IsSubseq(_, _)
IsSubseq(s, t) == IF s = << >> THEN TRUE ELSE IF t = << >> THEN FALSE
                  ELSE IF Head(s) = Head(t) THEN IsSubseq(Tail(s), Tail(t)) ELSE IsSubseq(s, Tail(t))

Has(S) == S \subseteq DOMAIN Defs
Combined(c, o, k) == Has({c, o, k}) => Flat(GroupBody(c)) = Flat(GroupBody(o)) \o Tail(Flat(GroupBody(k)))
Contains(ext, bas) == Has({ext, bas}) => IsSubseq(Names(Defs[bas]), <<"DF002">> \o Tail(Names(Defs[ext])))
                                         \/ IsSubseq(Tail(Names(Defs[bas])), Tail(Names(Defs[ext])))

Pad3(i) == IF i < 10 THEN "00" \o ToString(i) ELSE IF i < 100 THEN "0" \o ToString(i) ELSE ToString(i)
Igs(base, k) == "4076_" \o Pad3(base + k)

\* MSM: from the multiple-message bit on, every constellation has the layout of GPS at that level
RECURSIVE DropUntil(_, _)
DropUntil(body, name) == IF body = << >> THEN << >> ELSE IF Head(body).k = "fld" /\ Head(body).n = name THEN body ELSE DropUntil(Tail(body), name)
MsmTail(ident) == Flat(DropUntil(Defs[ident], "DF393"))
RECURSIVE TakeUntil(_, _)
TakeUntil(body, name) == IF body = << >> \/ (Head(body).k = "fld" /\ Head(body).n = name) THEN << >> ELSE << Head(body) >> \o TakeUntil(Tail(body), name)

SiblingsAgree ==
  /\ (id = "1060" => Combined("1060", "1057", "1058"))
  /\ (id = "1066" => Combined("1066", "1063", "1064"))
  /\ (TableOf[id] = "igs" /\ Sub % 20 = 3 /\ Sub < 200 =>
        Combined(id, Igs(Sub - 3, 1), Igs(Sub - 3, 2)))
  /\ (TableOf[id] = "igs" /\ Sub < 200 /\ Igs(20, Sub % 20) \in DOMAIN Defs =>
        Flat(Ast) = Flat(Defs[Igs(20, Sub % 20)]))                          \* families identical across constellations
  /\ (id = "1002" => Contains("1002", "1001")) /\ (id = "1004" => Contains("1004", "1003") /\ Contains("1004", "1002"))
  /\ (id = "1003" => Contains("1003", "1001"))
  /\ (id = "1010" => Contains("1010", "1009")) /\ (id = "1012" => Contains("1012", "1011") /\ Contains("1012", "1010"))
  /\ (id = "1011" => Contains("1011", "1009"))
  /\ (id = "1008" => Contains("1008", "1007")) /\ (id = "1006" => Contains("1006", "1005"))
  /\ (id = "1033" => Contains("1033", "1008"))
  /\ (TableOf[id] = "msm" /\ Mid \div 10 \in 108 .. 113 /\ ToString(1070 + (Mid % 10)) \in DOMAIN Defs =>
        /\ MsmTail(id) = MsmTail(ToString(1070 + (Mid % 10)))
        /\ Bits(TakeUntil(Ast, "DF393"), 0, Env0) = 54)
=============================================================================
