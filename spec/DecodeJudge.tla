---------------------------- MODULE DecodeJudge ----------------------------
(***************************************************************************)
(* Trace validation of recorded decodes of the REAL RTCMMessage against    *)
(* Decode.tla (method (C) of DESIGN 2.1).                                  *)
(*                                                                         *)
(* One record = payload bytes, label option, observed outcome (message /   *)
(* exception + whether it is one of the library's own classes), observed   *)
(* identity and the ORDERED public attribute list of the message.  The     *)
(* judge runs the Decode machine on the bytes (checking Decode's           *)
(* invariants in every state) and, when it terminates, compares.  The      *)
(* verdict function is TOTAL: every record gets exactly one                *)
(*   <<"VERDICT", rid, "accept"|"reject", clause, detail, bitsConsumed>>   *)
(* line; a rejected record never blocks the following ones.                *)
(***************************************************************************)
EXTENDS Message, Json, IOUtils

Tables  == TLCEval(JsonDeserialize(IOEnv.VERIF_TABLES))
Records == TLCEval(JsonDeserialize(IOEnv.VERIF_RECORDS))
JFields == Tables.fields
JDefs   == Tables.defs
JTable  == Tables.table
NA      == Tables.na

VARIABLES rid,      \* index of the record being judged (Len+1 when done)
          learnt,   \* <<mode, g, id>> -> label text seen first (C16 consistency)
          opi,      \* next operation of the record's history (Message-level ops)
          opfail    \* << >> or <<clause, detail>> of the first failing operation

jvars == <<rid, learnt, opi, opfail>>
vars == <<dvars, jvars>>

Rec == Records[rid]

\* static parser (RTCMReader.parse): CRC test iff validate bit 0 is set, then
\* the payload is the buffer minus 3 leading and 3 trailing bytes - nothing else
\* (preamble, length field) is looked at
PayloadOfRec(r) == IF r.via = "parse" THEN SubSeq(r.frame, 4, Len(r.frame) - 3) ELSE r.p
StartOfRec(r) == IF r.via = "parse" /\ r.validate % 2 = 1 /\ Crc(r.frame) # 0 THEN "crcfail" ELSE "begin"
JTerminal == Terminal \/ st = "crcfail"

---------------------------------------------------------------------------
PrnMatch(cl, o) ==
  /\ o.k = "s"
  /\ CASE cl.c = "num"     -> o.num = cl.v
       [] cl.c = "named"   -> o.num = -1 /\ o.t # NA /\ o.t # ""
       [] cl.c = "na"      -> o.t = NA
       [] cl.c = "lenient" -> o.num = cl.v \/ o.t = NA

SigMatchRinex(cl, o) ==
  /\ o.k = "s"
  /\ CASE cl.c = "code"    -> o.t = cl.v
       [] cl.c = "na"      -> o.t = NA
       [] cl.c = "lenient" -> o.t = cl.v \/ o.t = NA

\* band labels are not pinned: a defined signal must have some label other
\* than N/A, the same wherever that signal occurs; a reserved one is N/A
SigMatchBand(e, cl, o) ==
  /\ o.k = "s"
  /\ CASE cl.c = "code"    -> o.t # NA /\ o.t # "" /\ o.t # cl.v      \* a band label is not the RINEX code
       [] cl.c = "na"      -> o.t = NA
       [] cl.c = "lenient" -> o.t # "" /\ o.t # cl.v
  /\ (<<"band", e.g, e.id>> \in DOMAIN learnt => learnt[<<"band", e.g, e.id>>] = o.t)

\* Rec.lbl = FALSE: the record's owner (e.g. C03) leaves label TEXT to C09/C16;
\* name, position and string type of the label attributes are still checked
Match(e, o, mode) ==
  /\ o.n = e.n
  /\ CASE e.k = "i"   -> o.k = "i" /\ o.s = e.s /\ o.m = e.m
       [] e.k = "s"   -> o.k = "s" /\ o.c = e.c
       [] e.k = "txt" -> o.k = "s" /\ o.t = e.t
       [] e.k = "prn" -> IF Rec.lbl THEN PrnMatch(PrnClass(e.g, e.id), o) ELSE o.k = "s"
       [] e.k = "sig" -> IF ~Rec.lbl THEN o.k = "s"
                         ELSE IF mode = "band" THEN SigMatchBand(e, SigClass(e.g, e.id), o)
                         ELSE SigMatchRinex(SigClass(e.g, e.id), o)
       [] OTHER -> FALSE

\* The ORDER in which the object lists its public attributes is fixed by no listed property
\* (C03: "one public attribute per field occurrence, named ..."): an observed list that holds
\* exactly the specification's names in another order is compared name by name.
NamesInOrder(list) == Len(list) = Len(attrs) /\ \A i \in 1 .. Len(list) : list[i].n = attrs[i].n
SameNames(list) == Len(list) = Len(attrs) /\ {list[i].n : i \in 1 .. Len(list)} = {attrs[i].n : i \in 1 .. Len(attrs)}
Norm(list) ==
  IF NamesInOrder(list) \/ ~NamesDistinct \/ ~SameNames(list) THEN list
  ELSE [i \in 1 .. Len(attrs) |->
          \* (reorderings are local as a rule: look near position i first)
          LET W == {j \in (i - 3) .. (i + 3) : j >= 1 /\ j <= Len(list) /\ list[j].n = attrs[i].n}
          IN  IF W # {} THEN list[CHOOSE j \in W : TRUE]
              ELSE list[CHOOSE j \in 1 .. Len(list) : list[j].n = attrs[i].n]]

\* within one message a signal has one label
SelfConsistent(obs) ==
  \A i, j \in 1 .. Len(attrs) :
     (attrs[i].k = "sig" /\ attrs[j].k = "sig" /\ attrs[i].id = attrs[j].id
        /\ i <= Len(obs) /\ j <= Len(obs) /\ Rec.lbl) => obs[i].t = obs[j].t

FirstBad(obs, mode) ==
  LET n == IF Len(obs) < Len(attrs) THEN Len(obs) ELSE Len(attrs)
      B == {i \in 1 .. n : ~Match(attrs[i], obs[i], mode)}
  IN  IF B = {} THEN 0 ELSE CHOOSE i \in B : \A j \in B : i <= j

AllMatch(obs, mode) == Len(obs) = Len(attrs) /\ FirstBad(obs, mode) = 0 /\ SelfConsistent(obs)

ModeOK(obs, mode) ==
  IF mode = "either" THEN AllMatch(obs, "rinex") \/ AllMatch(obs, "band") ELSE AllMatch(obs, mode)

ModeUsed(obs, mode) ==
  IF mode = "either" THEN (IF AllMatch(obs, "rinex") THEN "rinex" ELSE "band") ELSE mode

Detail(obs, mode) ==
  LET m == IF mode = "either" THEN "rinex" ELSE mode
      i == FirstBad(obs, m)
  IN  IF i # 0 THEN <<"attr", i, attrs[i], obs[i]>>
      ELSE IF Len(obs) # Len(attrs)
           THEN <<"count", Len(attrs), Len(obs),
                  IF Len(obs) > Len(attrs) THEN obs[Len(attrs) + 1].n
                  ELSE attrs[Len(obs) + 1].n>>
      ELSE <<"label-consistency">>

Verdict ==
  LET r == Rec IN
  IF st = "crcfail"
  THEN IF r.out = "raise" /\ r.cls = "RTCMParseError" THEN <<"accept", "CrcRejected", << >> >>
       ELSE IF r.out = "raise" THEN <<"reject", IF r.lib THEN "WrongErrorClass" ELSE "ForeignException", <<r.cls>> >>
       ELSE <<"reject", "BadCrcAccepted", <<Crc(r.frame)>> >>
  ELSE IF st = "fail"
  THEN IF r.out = "raise" /\ r.lib THEN <<"accept", "Rejected", << >> >>
       ELSE IF r.out = "raise" THEN <<"reject", "ForeignException", <<r.cls>> >>
       ELSE <<"reject", "AcceptedButSpecFails", <<off, Len(bits), Len(attrs)>> >>
  ELSE \* "ok" or "stub"
       IF r.out = "raise"
       THEN <<"reject", IF r.lib THEN "RaisedButSpecAccepts" ELSE "ForeignException", <<r.cls, st>> >>
       ELSE IF r.ident # ident THEN <<"reject", "Identity", <<ident, r.ident>> >>
       ELSE IF ~NamesDistinct THEN <<"reject", "NamesDistinct", << >> >>
       ELSE IF ~r.scaled THEN <<"reject", "ScaleMismatch", <<r.scalebad>> >>
       ELSE LET oa == Norm(r.attrs) IN
            IF ModeOK(oa, r.lab) THEN <<"accept", IF st = "stub" THEN "Stub" ELSE "Message", << >> >>
            ELSE <<"reject", "Attributes", Detail(oa, r.lab)>>


---------------------------------------------------------------------------
\* Message-level operations recorded after the construction (histories):
\* each op record has the uniform shape
\*  [op, name, raised, lib, none, flag, bytes, ident, attrs, sd, meta, sats, cells, layers, names]
ValMatch(e, o, mode) == Match(e, [o EXCEPT !.n = e.n], mode)
RMode == IF Rec.lab = "either" THEN ModeUsed(Norm(Rec.attrs), Rec.lab) ELSE Rec.lab

EntryOK(grp, i, ent) ==
  LET E == EntryOf(grp, i) IN
  /\ {ent[k].b : k \in 1 .. Len(ent)} = {attrs[j].b : j \in E}
  /\ \A k \in 1 .. Len(ent) : \E j \in E : attrs[j].b = ent[k].b /\ ValMatch(attrs[j], ent[k].v, RMode)

MsmHelperOK(o) ==
  LET ps == PosOf(attrs, "DF003")
      pe == PosOf(attrs, EpochField(Gnss))
  IN
  /\ ~o.none /\ o.raised = ""
  /\ o.meta.ident = ident
  /\ ps # 0 /\ ValMatch(attrs[ps], o.meta.station, RMode)
  /\ pe # 0 /\ ValMatch(attrs[pe], o.meta.epoch, RMode)
  /\ o.meta.sats = Len(sats) /\ o.meta.cells = Len(cells)
  /\ Len(o.sats) = Len(sats) /\ Len(o.cells) = Len(cells)
  /\ \A i \in 1 .. Len(o.sats) : EntryOK("NSat", i, o.sats[i])
  /\ \A i \in 1 .. Len(o.cells) : EntryOK("NCell", i, o.cells[i])

ListOK(pos, vals) ==
  /\ Len(pos) = Len(vals)
  /\ \A k \in 1 .. Len(pos) : ValMatch(attrs[pos[k]], vals[k], RMode)

HarmHelperOK(o) ==
  /\ ~o.none /\ o.raised = ""
  /\ Len(o.layers) = NumLayers
  /\ \A l \in 1 .. Len(o.layers) :
       LET ph == PosOf(attrs, Render("IDF036", << l >>)) IN
       /\ ph # 0 /\ ValMatch(attrs[ph], o.layers[l].height, RMode)
       /\ ListOK(LayerPos("IDF039", l), o.layers[l].cos)
       /\ ListOK(LayerPos("IDF040", l), o.layers[l].sin)

NameOK(e, x) ==
  e.b # "" /\ e.b \in DOMAIN JFields =>
    /\ x.n = e.n
    /\ x.raised = ""
    /\ x.dd = JFields[e.b].dd                                   \* datadesc = description of the base field
    /\ (e.ix # << >> => x.idx = e.ix /\ x.tuple = (Len(e.ix) > 1) /\ x.base = e.b)

FirstBadName(o) ==
  LET nm == Norm(o.names)
      n == IF Len(nm) < Len(attrs) THEN Len(nm) ELSE Len(attrs)
      B == {i \in 1 .. n : ~NameOK(attrs[i], nm[i])}
  IN  IF B = {} THEN 0 ELSE CHOOSE i \in B : \A j \in B : i <= j

\* snapshot of a live message equals the specification's state
SnapOK(o) ==
  /\ o.bytes = p
  /\ o.ident = ident
  /\ ModeOK(Norm(o.attrs), Rec.lab)

OpCheck(o) ==
  CASE o.op = "serialize" ->
         IF o.raised # "" THEN <<"Serialize", <<"raised", o.raised>> >>
         ELSE IF o.bytes = Frame(p) THEN << >> ELSE <<"Serialize", <<"frame differs", Len(o.bytes), Len(Frame(p))>> >>
    [] o.op = "payload" ->
         IF o.bytes = p THEN << >> ELSE <<"PayloadKept", <<Len(o.bytes), Len(p)>> >>
    [] o.op = "reparse" ->         \* parse(serialize()) with validation on
         IF o.raised # "" THEN <<"RoundTrip", <<"raised", o.raised>> >>
         ELSE IF SnapOK(o) THEN << >> ELSE <<"RoundTrip", <<"snapshot differs", o.ident>> >>
    [] o.op = "repr" ->            \* eval(repr(msg)): same payload (repr does not carry the label option)
         IF o.raised # "" THEN <<"ReprEval", <<"raised", o.raised>> >>
         ELSE IF o.bytes = p /\ o.ident = ident THEN << >> ELSE <<"ReprEval", <<"payload differs", o.ident>> >>
    [] o.op = "frameback" ->       \* parse(valid frame).serialize() = the frame, byte for byte
         IF o.raised # "" THEN <<"FrameBack", <<"raised", o.raised>> >>
         ELSE IF o.bytes = Rec.frame /\ o.bytes = Frame(p) THEN << >> ELSE <<"FrameBack", <<Len(o.bytes), Len(Rec.frame)>> >>
    [] o.op = "setattr" ->         \* any assignment after construction
         IF o.raised # "RTCMMessageError" THEN <<"Frozen", <<o.name, "no RTCMMessageError", o.raised>> >>
         ELSE IF ~SnapOK(o) THEN <<"Frozen", <<o.name, "state changed">> >>
         ELSE IF o.sd # Rec.sd THEN <<"Frozen", <<o.name, "str/repr/serialize changed">> >>
         ELSE << >>
    [] o.op = "ismsm" ->
         IF o.raised # "" THEN <<"IsMsm", <<"raised", o.raised>> >>
         ELSE IF MsmSpec(mid) = "yes" /\ ~o.flag THEN <<"IsMsm", <<mid, "implemented MSM not reported">> >>
         ELSE IF MsmSpec(mid) = "no" /\ o.flag THEN <<"IsMsm", <<mid, "reported outside the MSM block">> >>
         ELSE << >>
    [] o.op = "parse_msm" ->
         IF o.raised # "" THEN <<"HelperRaised", <<"parse_msm", o.raised>> >>
         ELSE IF MsmSpec(mid) = "yes" /\ st = "ok"
              THEN IF MsmHelperOK(o) THEN << >> ELSE <<"MsmHelper", <<ident>> >>
         ELSE IF o.none THEN << >> ELSE <<"HelperNotNone", <<"parse_msm", ident>> >>
    [] o.op = "parse_4076_201" ->
         IF o.raised # "" THEN <<"HelperRaised", <<"parse_4076_201", o.raised>> >>
         ELSE IF ident = "4076_201" /\ st = "ok"
              THEN IF HarmHelperOK(o) THEN << >> ELSE <<"HarmHelper", <<ident>> >>
         ELSE IF o.none THEN << >> ELSE <<"HelperNotNone", <<"parse_4076_201", ident>> >>
    [] o.op = "strshape" ->        \* str(msg): identity, attribute names in decode order, stub marker
         IF o.raised # "" THEN <<"StrShape", <<"raised", o.raised>> >>
         ELSE IF o.ident # ident THEN <<"StrShape", <<"identity", o.ident, ident>> >>
         ELSE IF o.snames # StrNames THEN <<"StrShape", <<"names", Len(o.snames), Len(attrs)>> >>
         ELSE IF o.flag # (st = "stub") THEN <<"StrShape", <<"stub marker", o.flag>> >>
         ELSE << >>
    [] o.op = "get_bit" ->         \* get_bit(payload, n) for the recorded positions
         IF o.raised # "" THEN <<"GetBit", <<"raised", o.raised>> >>
         ELSE IF \A i \in 1 .. Len(o.idx) : o.idx[i] < Len(bits) => o.bytes[i] = GetBit(p, o.idx[i]) THEN << >>
         ELSE <<"GetBit", <<"wrong bit">> >>
    [] o.op = "len2bytes" ->
         IF o.raised # "" THEN <<"Len2Bytes", <<"raised", o.raised>> >>
         ELSE IF o.bytes = Len2Bytes(p) THEN << >> ELSE <<"Len2Bytes", <<o.bytes>> >>
    [] o.op = "tow2utc" ->         \* tow2utc(tow) for the recorded times of week; o.lines = <<h, m, s, ms>> each
         IF o.raised # "" THEN <<"Tow2Utc", <<"raised", o.raised>> >>
         ELSE IF \A i \in 1 .. Len(o.idx) : o.lines[i] = Tow2Utc(o.idx[i]) THEN << >>
         ELSE <<"Tow2Utc", <<"wrong time">> >>
    [] o.op = "names" ->
         IF Len(o.names) # Len(attrs) THEN <<"Names", <<"count", Len(o.names), Len(attrs)>> >>
         ELSE LET i == FirstBadName(o) IN
              IF i = 0 THEN << >> ELSE <<"Names", <<attrs[i].n, attrs[i].b, attrs[i].ix, Norm(o.names)[i]>> >>
    [] OTHER -> <<"UnknownOp", <<o.op>> >>

Op ==
  /\ rid <= Len(Records)
  /\ JTerminal /\ st \in {"ok", "stub"} /\ Rec.out = "msg"
  /\ opfail = << >>
  /\ opi <= Len(Rec.ops)
  /\ Verdict[1] = "accept"
  /\ opfail' = OpCheck(Rec.ops[opi])
  /\ opi' = opi + 1
  /\ UNCHANGED <<dvars, rid, learnt>>

OpsPending ==
  /\ st \in {"ok", "stub"} /\ Rec.out = "msg" /\ opfail = << >> /\ opi <= Len(Rec.ops)
  /\ Verdict[1] = "accept"

NewLabels ==
  LET r == Rec
      oa == Norm(r.attrs)
      m == ModeUsed(oa, r.lab)
      S == {i \in 1 .. Len(attrs) : attrs[i].k = "sig"}
      K == {<<m, attrs[i].g, attrs[i].id>> : i \in S}
  IN  [k \in K \ DOMAIN learnt |->
         LET i == CHOOSE i \in S : <<m, attrs[i].g, attrs[i].id>> = k IN oa[i].t]

Judge ==
  /\ rid <= Len(Records)
  /\ JTerminal
  /\ ~OpsPending
  /\ LET v == IF opfail = << >> THEN Verdict ELSE <<"reject", opfail[1], opfail[2]>> IN
     /\ PrintT(<<"VERDICT", Rec.rid, v[1], v[2], v[3], off>>)
     /\ learnt' = IF v[1] = "accept" /\ st = "ok" /\ Rec.out = "msg" /\ Rec.lbl
                  THEN LET nl == NewLabels IN
                       IF DOMAIN nl # {} /\ PrintT(<<"LEARNT", [k \in DOMAIN nl |-> nl[k]]>>) THEN nl @@ learnt ELSE learnt
                  ELSE learnt
  /\ rid' = rid + 1
  /\ opi' = 1 /\ opfail' = << >>
  /\ IF rid + 1 <= Len(Records)
     THEN LoadNextSt(PayloadOfRec(Records[rid + 1]), StartOfRec(Records[rid + 1]))
     ELSE UNCHANGED dvars

JInit ==
  /\ rid = 1
  /\ learnt = << >>
  /\ opi = 1 /\ opfail = << >>
  /\ IF Len(Records) >= 1 THEN LoadSt(PayloadOfRec(Records[1]), StartOfRec(Records[1])) ELSE Load(<<0, 0>>)

JNext == (rid <= Len(Records) /\ DecodeNext /\ UNCHANGED jvars) \/ Op \/ Judge

JSpec == JInit /\ [][JNext]_vars

\* the judge has consumed every record
Done == rid = Len(Records) + 1
Complete == TLCGet("stats").diameter >= 1   \* placeholder so POSTCONDITION exists
=============================================================================
