---------------------------- MODULE DecodeJudge ----------------------------
(***************************************************************************)
(* Trace validation of recorded decodes of the REAL RTCMMessage against    *)
(* Decode.tla (method (C) of DESIGN 2.1).                                  *)
(*                                                                         *)
(* One record = payload bytes, label option, observed outcome (message /   *)
(* exception + whether it is one of the library's own classes), observed   *)
(* identity and the ORDERED public attribute list of the message.  The     *)
(* judge runs the Decode machine on the bytes (checking Decode's           *)
(* invariants in every state) and, when it terminates, compares.  The      *)
(* verdict function is TOTAL: every record gets exactly one                *)
(*   <<"VERDICT", rid, "accept"|"reject", clause, detail, bitsConsumed>>   *)
(* line; a rejected record never blocks the following ones.                *)
(***************************************************************************)
EXTENDS Decode, Crc24q, Json, IOUtils

Tables  == TLCEval(JsonDeserialize(IOEnv.VERIF_TABLES))
Records == TLCEval(JsonDeserialize(IOEnv.VERIF_RECORDS))
JFields == Tables.fields
JDefs   == Tables.defs
JTable  == Tables.table
NA      == Tables.na

VARIABLES rid,      \* index of the record being judged (Len+1 when done)
          learnt    \* <<mode, g, id>> -> label text seen first (C16 consistency)

jvars == <<rid, learnt>>
vars == <<dvars, jvars>>

Rec == Records[rid]

\* static parser (RTCMReader.parse): CRC test iff validate bit 0 is set, then
\* the payload is the buffer minus 3 leading and 3 trailing bytes - nothing else
\* (preamble, length field) is looked at
PayloadOfRec(r) == IF r.via = "parse" THEN SubSeq(r.frame, 4, Len(r.frame) - 3) ELSE r.p
StartOfRec(r) == IF r.via = "parse" /\ r.validate % 2 = 1 /\ Crc(r.frame) # 0 THEN "crcfail" ELSE "begin"
JTerminal == Terminal \/ st = "crcfail"

---------------------------------------------------------------------------
PrnMatch(cl, o) ==
  /\ o.k = "s"
  /\ CASE cl.c = "num"     -> o.num = cl.v
       [] cl.c = "named"   -> o.num = -1 /\ o.t # NA /\ o.t # ""
       [] cl.c = "na"      -> o.t = NA
       [] cl.c = "lenient" -> o.num = cl.v \/ o.t = NA

SigMatchRinex(cl, o) ==
  /\ o.k = "s"
  /\ CASE cl.c = "code"    -> o.t = cl.v
       [] cl.c = "na"      -> o.t = NA
       [] cl.c = "lenient" -> o.t = cl.v \/ o.t = NA

\* band labels are not pinned: a defined signal must have some label other
\* than N/A, the same wherever that signal occurs; a reserved one is N/A
SigMatchBand(e, cl, o) ==
  /\ o.k = "s"
  /\ CASE cl.c = "code"    -> o.t # NA /\ o.t # ""
       [] cl.c = "na"      -> o.t = NA
       [] cl.c = "lenient" -> o.t # ""
  /\ (<<"band", e.g, e.id>> \in DOMAIN learnt => learnt[<<"band", e.g, e.id>>] = o.t)

\* Rec.lbl = FALSE: the record's owner (e.g. C03) leaves label TEXT to C09/C16;
\* name, position and string type of the label attributes are still checked
Match(e, o, mode) ==
  /\ o.n = e.n
  /\ CASE e.k = "i"   -> o.k = "i" /\ o.s = e.s /\ o.m = e.m
       [] e.k = "s"   -> o.k = "s" /\ o.c = e.c
       [] e.k = "txt" -> o.k = "s" /\ o.t = e.t
       [] e.k = "prn" -> IF Rec.lbl THEN PrnMatch(PrnClass(e.g, e.id), o) ELSE o.k = "s"
       [] e.k = "sig" -> IF ~Rec.lbl THEN o.k = "s"
                         ELSE IF mode = "band" THEN SigMatchBand(e, SigClass(e.g, e.id), o)
                         ELSE SigMatchRinex(SigClass(e.g, e.id), o)
       [] OTHER -> FALSE

\* within one message a signal has one label
SelfConsistent(obs) ==
  \A i, j \in 1 .. Len(attrs) :
     (attrs[i].k = "sig" /\ attrs[j].k = "sig" /\ attrs[i].id = attrs[j].id
        /\ i <= Len(obs) /\ j <= Len(obs) /\ Rec.lbl) => obs[i].t = obs[j].t

FirstBad(obs, mode) ==
  LET n == IF Len(obs) < Len(attrs) THEN Len(obs) ELSE Len(attrs)
      B == {i \in 1 .. n : ~Match(attrs[i], obs[i], mode)}
  IN  IF B = {} THEN 0 ELSE CHOOSE i \in B : \A j \in B : i <= j

AllMatch(obs, mode) == Len(obs) = Len(attrs) /\ FirstBad(obs, mode) = 0 /\ SelfConsistent(obs)

ModeOK(obs, mode) ==
  IF mode = "either" THEN AllMatch(obs, "rinex") \/ AllMatch(obs, "band") ELSE AllMatch(obs, mode)

ModeUsed(obs, mode) ==
  IF mode = "either" THEN (IF AllMatch(obs, "rinex") THEN "rinex" ELSE "band") ELSE mode

Detail(obs, mode) ==
  LET m == IF mode = "either" THEN "rinex" ELSE mode
      i == FirstBad(obs, m)
  IN  IF i # 0 THEN <<"attr", i, attrs[i], obs[i]>>
      ELSE IF Len(obs) # Len(attrs)
           THEN <<"count", Len(attrs), Len(obs),
                  IF Len(obs) > Len(attrs) THEN obs[Len(attrs) + 1].n
                  ELSE attrs[Len(obs) + 1].n>>
      ELSE <<"label-consistency">>

Verdict ==
  LET r == Rec IN
  IF st = "crcfail"
  THEN IF r.out = "raise" /\ r.cls = "RTCMParseError" THEN <<"accept", "CrcRejected", << >> >>
       ELSE IF r.out = "raise" THEN <<"reject", IF r.lib THEN "WrongErrorClass" ELSE "ForeignException", <<r.cls>> >>
       ELSE <<"reject", "BadCrcAccepted", <<Crc(r.frame)>> >>
  ELSE IF st = "fail"
  THEN IF r.out = "raise" /\ r.lib THEN <<"accept", "Rejected", << >> >>
       ELSE IF r.out = "raise" THEN <<"reject", "ForeignException", <<r.cls>> >>
       ELSE <<"reject", "AcceptedButSpecFails", <<off, Len(bits), Len(attrs)>> >>
  ELSE \* "ok" or "stub"
       IF r.out = "raise"
       THEN <<"reject", IF r.lib THEN "RaisedButSpecAccepts" ELSE "ForeignException", <<r.cls, st>> >>
       ELSE IF r.ident # ident THEN <<"reject", "Identity", <<ident, r.ident>> >>
       ELSE IF ~NamesDistinct THEN <<"reject", "NamesDistinct", << >> >>
       ELSE IF ~r.scaled THEN <<"reject", "ScaleMismatch", <<r.scalebad>> >>
       ELSE IF ModeOK(r.attrs, r.lab) THEN <<"accept", IF st = "stub" THEN "Stub" ELSE "Message", << >> >>
       ELSE <<"reject", "Attributes", Detail(r.attrs, r.lab)>>

NewLabels ==
  LET r == Rec
      m == ModeUsed(r.attrs, r.lab)
      S == {i \in 1 .. Len(attrs) : attrs[i].k = "sig"}
      K == {<<m, attrs[i].g, attrs[i].id>> : i \in S}
  IN  [k \in K \ DOMAIN learnt |->
         LET i == CHOOSE i \in S : <<m, attrs[i].g, attrs[i].id>> = k IN r.attrs[i].t]

Judge ==
  /\ rid <= Len(Records)
  /\ JTerminal
  /\ LET v == Verdict IN
     /\ PrintT(<<"VERDICT", Rec.rid, v[1], v[2], v[3], off>>)
     /\ learnt' = IF v[1] = "accept" /\ st = "ok" /\ Rec.out = "msg" /\ Rec.lbl
                  THEN LET nl == NewLabels IN
                       IF DOMAIN nl # {} /\ PrintT(<<"LEARNT", [k \in DOMAIN nl |-> nl[k]]>>) THEN nl @@ learnt ELSE learnt
                  ELSE learnt
  /\ rid' = rid + 1
  /\ IF rid + 1 <= Len(Records)
     THEN LoadNextSt(PayloadOfRec(Records[rid + 1]), StartOfRec(Records[rid + 1]))
     ELSE UNCHANGED dvars

JInit ==
  /\ rid = 1
  /\ learnt = << >>
  /\ IF Len(Records) >= 1 THEN LoadSt(PayloadOfRec(Records[1]), StartOfRec(Records[1])) ELSE Load(<<0, 0>>)

JNext == (rid <= Len(Records) /\ DecodeNext /\ UNCHANGED jvars) \/ Judge

JSpec == JInit /\ [][JNext]_vars

\* the judge has consumed every record
Done == rid = Len(Records) + 1
Complete == TLCGet("stats").diameter >= 1   \* placeholder so POSTCONDITION exists
=============================================================================
