----------------------------- MODULE SockFramer -----------------------------
(***************************************************************************)
(* Composition: RTCMReader.read (Framer.tla) OVER SocketWrapper            *)
(* (SockBuf.tla) - the last sentence of C11: "the reader over a socket     *)
(* returns the same messages as over a file holding the same bytes".       *)
(*                                                                         *)
(* One behaviour =                                                         *)
(*   stage "file": a second instance of Framer (F2) reads the source as a  *)
(*                 FILE (read(n) = the next n bytes, readline = up to LF): *)
(*                 deterministic, it fixes the reference outputs `outs2`;  *)
(*   stage "sock": Framer reads the SAME source through SockBuf: every     *)
(*                 request of the reader becomes a client call of the      *)
(*                 wrapper (read(Need) / readline), the NETWORK chooses    *)
(*                 how many bytes each receive hands over (Recv(k)), may   *)
(*                 time out while the reader waits for the first byte of   *)
(*                 an item with an empty buffer (BoundaryFail: the reader  *)
(*                 returns (None, None), the client reads again), and      *)
(*                 closes at the end;                                      *)
(*   stage "done": the outputs are compared.                               *)
(*                                                                         *)
(* Sources: every concatenation of up to MaxItems items - valid frames     *)
(* (payload 0..1 byte, known / unknown numbers, payload holding a sync     *)
(* byte), a damaged frame, an NMEA sentence ending in CR LF, a UBX frame   *)
(* whose payload holds sync bytes, inert noise.                            *)
(***************************************************************************)
EXTENDS Framer

CONSTANTS BufSize, MaxItems, MaxFail, DefinedMids,
          ChunkMode,      \* TRUE: the peer sends the source as an HTTP/1.1 chunked body (C12 inside the composition)
          AllCuts,        \* chunked: every split of the source into two chunks (FALSE: three representative cuts)
          Record          \* TRUE: keep the receive script (simulation, for replay); FALSE: exhaustive runs

VARIABLES net, closed, buffer, partial, call, last, rcvd, delivered,      \* SockBuf
          pc2, cur2, obs2, got2,                                           \* the file reader F2
          stage, src, fpos, outs, outs2, phase, fails, script

IdInflate(x) == x
S  == INSTANCE SockBuf WITH Chunked <- ChunkMode, Inflate <- IdInflate
F2 == INSTANCE Framer WITH pc <- pc2, cur <- cur2, obs <- obs2, got <- got2

f2vars == <<pc2, cur2, obs2, got2>>
svars2 == <<net, closed, buffer, partial, call, last, rcvd, delivered>>
cvars == <<stage, src, fpos, outs, outs2, phase, fails, script>>
vars == <<fvars, f2vars, svars2, cvars>>

\* ---- sources ----------------------------------------------------------------
FrameOf(pl) == LET h == <<211, Len(pl) \div 256, Len(pl) % 256>> \o pl IN h \o CrcBytes(h)
Payloads == {<< >>, <<62, 208>>, <<0, 16>>, <<62, 208, 211>>, <<125, 0, 36>>}
GoodFrames == {FrameOf(pl) : pl \in Payloads}
Damaged == {[f EXCEPT ![Len(f)] = (@ + 1) % 256] : f \in {FrameOf(<<62, 208, 211>>), FrameOf(<<125, 0, 36>>)}}
Foreign == { <<36, 71, 88, 13, 10>>,                    \* $GX CR LF
             <<181, 98, 1, 2, 2, 0, 211, 36, 9, 9>>,    \* UBX, payload holds sync bytes
             <<7, 13>> }                                \* inert noise (a lone CR)
Items == GoodFrames \cup Damaged \cup Foreign
RECURSIVE Sources(_)
Sources(n) == IF n = 0 THEN {<< >>} ELSE LET P == Sources(n - 1) IN P \cup {p \o i : p \in P, i \in Items}

\* what the peer puts on the wire: the source itself, or the source as a chunked body of one or
\* two chunks (every cut, or three representative ones) followed by the zero chunk
HexD(d) == IF d < 10 THEN 48 + d ELSE 87 + d
Hex(n) == IF n < 16 THEN <<HexD(n)>> ELSE <<HexD(n \div 16), HexD(n % 16)>>
Chunk(d) == Hex(Len(d)) \o <<13, 10>> \o d \o <<13, 10>>
ZeroChunk == <<48, 13, 10, 13, 10>>
CutSet(n) == IF AllCuts THEN 1 .. (n - 1) ELSE {1, n \div 2, n - 1} \cap (1 .. (n - 1))
Wires(s) ==
  IF ~ChunkMode THEN {s}
  ELSE IF s = << >> THEN {ZeroChunk}
  ELSE {Chunk(s) \o ZeroChunk} \cup {Chunk(SubSeq(s, 1, c)) \o Chunk(SubSeq(s, c + 1, Len(s))) \o ZeroChunk : c \in CutSet(Len(s))}

TinyOutcome(pl) ==
  IF Len(pl) < 2 THEN [k |-> "err", cls |-> "RTCMTypeError"]
  ELSE IF (pl[1] * 16 + pl[2] \div 16) \in DefinedMids THEN [k |-> "err", cls |-> "RTCMTypeError"]
  ELSE [k |-> "stub", cls |-> ""]
OutcomeOf(raw) == TinyOutcome(SubSeq(raw, 4, Len(raw) - 3))
NoOc == [k |-> "stub", cls |-> ""]

OptCore == {<<1, TRUE, 0>>, <<1, TRUE, 1>>, <<1, TRUE, 2>>, <<0, TRUE, 1>>, <<1, FALSE, 1>>}

Proj(o) == <<o.ev, o.cls, o.raw>>

Init ==
  /\ \E o \in OptCore : FInit(o[1], o[2], o[3])
  /\ pc2 = "idle" /\ cur2 = << >> /\ obs2 = Obs0 /\ got2 = << >>
  /\ \E s \in Sources(MaxItems) : \E w \in Wires(s) : src = s /\ S!SInit(w)
  /\ stage = "file" /\ fpos = 0 /\ outs = << >> /\ outs2 = << >> /\ phase = "issue" /\ fails = 0 /\ script = << >>

\* ---- stage "file": the reference run ----------------------------------------
RECURSIVE FindLf(_, _)
FindLf(s, j) == IF j > Len(s) THEN Len(s) ELSE IF s[j] = 10 THEN j ELSE FindLf(s, j + 1)
FileAnswer ==
  IF pc2 = "nmea" THEN SubSeq(src, fpos + 1, FindLf(src, fpos + 1))
  ELSE SubSeq(src, fpos + 1, IF fpos + F2!Need < Len(src) THEN fpos + F2!Need ELSE Len(src))

FileStep ==
  /\ stage = "file"
  /\ UNCHANGED <<fvars, svars2, src, outs, phase, fails, script>>
  /\ IF pc2 = "idle"
     THEN IF obs2.ev = "eof" THEN stage' = "sock" /\ UNCHANGED <<f2vars, fpos, outs2>>
          ELSE F2!CallRead /\ UNCHANGED <<stage, fpos, outs2>>
     ELSE LET ans == FileAnswer IN
          /\ F2!Step(ans, IF pc2 = "crc" /\ Len(ans) = 3 THEN OutcomeOf(cur2 \o ans) ELSE NoOc)
          /\ fpos' = fpos + Len(ans)
          /\ outs2' = IF obs2'.ev \in {"none", "eof"} THEN outs2 ELSE Append(outs2, Proj(obs2'))
          /\ UNCHANGED stage

\* ---- stage "sock": the reader over the wrapper ------------------------------
SockOnly == UNCHANGED <<fvars, f2vars, stage, src, fpos, outs, outs2, phase, fails>>

\* the constructor's initial receive and every later receive: the network's choice
NetRecv ==
  /\ stage = "sock"
  /\ \E k \in 1 .. BufSize : S!Recv(k) /\ script' = (IF Record THEN Append(script, k) ELSE script)
  /\ SockOnly
NetClose ==
  /\ stage = "sock" /\ S!RecvClosed /\ script' = (IF Record THEN Append(script, 0) ELSE script)
  /\ SockOnly
\* a timeout while the reader waits for the first byte of an item and nothing is buffered
BoundaryFail ==
  /\ stage = "sock" /\ fails < MaxFail
  /\ pc = "b1" /\ buffer = << >> /\ call.op = "read"
  /\ S!RecvFail /\ script' = (IF Record THEN Append(script, -1) ELSE script)
  /\ fails' = fails + 1
  /\ UNCHANGED <<fvars, f2vars, stage, src, fpos, outs, outs2, phase>>
WrapperInternal ==
  /\ stage = "sock"
  /\ (S!RetRead \/ S!LineStep \/ S!RetReadlineFail)
  /\ SockOnly /\ UNCHANGED script

\* the client calls read() again unless the data has ended for good
ClientCall ==
  /\ stage = "sock" /\ pc = "idle" /\ call.op = "none"
  /\ ~(obs.ev = "eof" /\ closed)
  /\ CallRead /\ phase' = "issue"
  /\ UNCHANGED <<f2vars, svars2, stage, src, fpos, outs, outs2, fails, script>>

\* the reader turns its pending request into a call on the wrapper
Issue ==
  /\ stage = "sock" /\ pc # "idle" /\ phase = "issue" /\ call.op = "none"
  /\ IF pc = "nmea" THEN S!CallReadline ELSE S!CallRead(Need)
  /\ phase' = "wait"
  /\ UNCHANGED <<fvars, f2vars, stage, src, fpos, outs, outs2, fails, script>>

\* the wrapper's call has returned: the reader continues with the answer
Answered ==
  /\ stage = "sock" /\ pc # "idle" /\ phase = "wait" /\ call.op = "none"
  /\ LET ans == last.data IN
     /\ Step(ans, IF pc = "crc" /\ Len(ans) = 3 THEN OutcomeOf(cur \o ans) ELSE NoOc)
     /\ outs' = IF obs'.ev \in {"none", "eof"} THEN outs ELSE Append(outs, Proj(obs'))
  /\ phase' = "issue"
  /\ UNCHANGED <<f2vars, svars2, stage, src, fpos, outs2, fails, script>>

Finish ==
  /\ stage = "sock" /\ pc = "idle" /\ obs.ev = "eof" /\ closed /\ call.op = "none"
  /\ stage' = "done"
  /\ UNCHANGED <<fvars, f2vars, svars2, src, fpos, outs, outs2, phase, fails, script>>

Next == FileStep \/ NetRecv \/ NetClose \/ BoundaryFail \/ WrapperInternal \/ ClientCall \/ Issue \/ Answered \/ Finish
Spec == Init /\ [][Next]_vars /\ WF_vars(Next)

\* ---- properties ---------------------------------------------------------------
Rets(o) == SelectSeq(o, LAMBDA x : x[1] = "ret")
\* C11: the same messages, in the same order, whatever the segmentation and boundary timeouts
SameMessages == stage = "done" => Rets(outs) = Rets(outs2)
\* and (sources are whole items, so no truncated tail) the same reports as well
SameReports == stage = "done" => outs = outs2
\* nothing of the source is left behind in the wrapper
Drained == stage = "done" => (net = << >> /\ buffer = << >>)
\* what the wrapper has handed to the reader is the source (chunked: the decoded body)
DeliveredIsSource == stage = "done" => delivered = src
\* the socket run ends
Ends == <>(stage = "done")
\* SockBuf's own invariants hold inside the composition
SockPrefixOK == S!PrefixOK
SockSizeOK == S!SizeOK

\* simulation: print every finished run for replay on the real code
RunOut == stage = "done" => PrintT(<<"SFRUN", rcvd, script, <<validate, parsed, quit>>, outs>>)
=============================================================================
