------------------------------ MODULE StdMsm ------------------------------
(***************************************************************************)
(* Pinned oracle (NOT derived from the repository): RTCM 10403.3 MSM       *)
(* satellite-mask numbering and signal-mask -> RINEX observation code      *)
(* tables for the seven constellations (message blocks 107x .. 113x).      *)
(*                                                                         *)
(* A constellation is identified by  g = message number \div 10            *)
(* (107 GPS, 108 GLONASS, 109 Galileo, 110 SBAS, 111 QZSS, 112 BeiDou,     *)
(* 113 NavIC/IRNSS).  Mask positions ("IDs") are 1-based, MSB first.       *)
(*                                                                         *)
(* Where editions/amendments of the standard differ (BeiDou IDs 38..63,    *)
(* NavIC IDs 8..14, BeiDou B1C/B2a signals), the class is "lenient": the   *)
(* pinned value or the not-available marker are both accepted.             *)
(***************************************************************************)
EXTENDS Integers

GnssSet == 107 .. 113

\* ---- satellites ---------------------------------------------------------
\* class "num": PRN must be numerically v; "named": a non-numeric label that
\* is not the N/A marker (GIOVE-A / GIOVE-B); "na": the N/A marker;
\* "lenient": numerically v or the N/A marker.
PrnClass(g, id) ==
  CASE g = 107 -> IF id \in 1 .. 63 THEN [c |-> "num", v |-> id] ELSE [c |-> "na", v |-> 0]
    [] g = 108 -> IF id \in 1 .. 24 THEN [c |-> "num", v |-> id] ELSE [c |-> "na", v |-> 0]
    [] g = 109 -> IF id \in 1 .. 50 THEN [c |-> "num", v |-> id]
                  ELSE IF id \in 51 .. 52 THEN [c |-> "named", v |-> id]
                  ELSE [c |-> "na", v |-> 0]
    [] g = 110 -> IF id \in 1 .. 39 THEN [c |-> "num", v |-> id + 119] ELSE [c |-> "na", v |-> 0]
    [] g = 111 -> IF id \in 1 .. 10 THEN [c |-> "num", v |-> id + 192] ELSE [c |-> "na", v |-> 0]
    [] g = 112 -> IF id \in 1 .. 37 THEN [c |-> "num", v |-> id]
                  ELSE IF id \in 38 .. 63 THEN [c |-> "lenient", v |-> id]
                  ELSE [c |-> "na", v |-> 0]
    [] g = 113 -> IF id \in 1 .. 7 THEN [c |-> "num", v |-> id]
                  ELSE IF id \in 8 .. 14 THEN [c |-> "lenient", v |-> id]
                  ELSE [c |-> "na", v |-> 0]
    [] OTHER -> [c |-> "na", v |-> 0]

\* ---- signals ------------------------------------------------------------
GpsSig == [i \in {2,3,4,8,9,10,15,16,17,22,23,24,30,31,32} |->
  CASE i = 2 -> "1C" [] i = 3 -> "1P" [] i = 4 -> "1W"
    [] i = 8 -> "2C" [] i = 9 -> "2P" [] i = 10 -> "2W"
    [] i = 15 -> "2S" [] i = 16 -> "2L" [] i = 17 -> "2X"
    [] i = 22 -> "5I" [] i = 23 -> "5Q" [] i = 24 -> "5X"
    [] i = 30 -> "1S" [] i = 31 -> "1L" [] i = 32 -> "1X"]

GloSig == [i \in {2,3,8,9} |->
  CASE i = 2 -> "1C" [] i = 3 -> "1P" [] i = 8 -> "2C" [] i = 9 -> "2P"]

GalSig == [i \in {2,3,4,5,6,8,9,10,11,12,14,15,16,18,19,20,22,23,24} |->
  CASE i = 2 -> "1C" [] i = 3 -> "1A" [] i = 4 -> "1B" [] i = 5 -> "1X" [] i = 6 -> "1Z"
    [] i = 8 -> "6C" [] i = 9 -> "6A" [] i = 10 -> "6B" [] i = 11 -> "6X" [] i = 12 -> "6Z"
    [] i = 14 -> "7I" [] i = 15 -> "7Q" [] i = 16 -> "7X"
    [] i = 18 -> "8I" [] i = 19 -> "8Q" [] i = 20 -> "8X"
    [] i = 22 -> "5I" [] i = 23 -> "5Q" [] i = 24 -> "5X"]

SbasSig == [i \in {2,22,23,24} |->
  CASE i = 2 -> "1C" [] i = 22 -> "5I" [] i = 23 -> "5Q" [] i = 24 -> "5X"]

QzsSig == [i \in {2,9,10,11,15,16,17,22,23,24,30,31,32} |->
  CASE i = 2 -> "1C" [] i = 9 -> "6S" [] i = 10 -> "6L" [] i = 11 -> "6X"
    [] i = 15 -> "2S" [] i = 16 -> "2L" [] i = 17 -> "2X"
    [] i = 22 -> "5I" [] i = 23 -> "5Q" [] i = 24 -> "5X"
    [] i = 30 -> "1S" [] i = 31 -> "1L" [] i = 32 -> "1X"]

BdsSig == [i \in {2,3,4,8,9,10,14,15,16} |->
  CASE i = 2 -> "2I" [] i = 3 -> "2Q" [] i = 4 -> "2X"
    [] i = 8 -> "6I" [] i = 9 -> "6Q" [] i = 10 -> "6X"
    [] i = 14 -> "7I" [] i = 15 -> "7Q" [] i = 16 -> "7X"]
\* added by amendments (B2a, B2b, B1C): accepted as the code or as N/A
BdsSigAmend == [i \in {22,23,24,25,30,31,32} |->
  CASE i = 22 -> "5D" [] i = 23 -> "5P" [] i = 24 -> "5X" [] i = 25 -> "7D"
    [] i = 30 -> "1D" [] i = 31 -> "1P" [] i = 32 -> "1X"]

IrnSig == [i \in {22} |-> "5A"]

SigTable(g) ==
  CASE g = 107 -> GpsSig [] g = 108 -> GloSig [] g = 109 -> GalSig [] g = 110 -> SbasSig
    [] g = 111 -> QzsSig [] g = 112 -> BdsSig [] g = 113 -> IrnSig

\* class "code": RINEX code must be v; "na": N/A marker; "lenient": v or N/A
SigClass(g, id) ==
  IF g \notin GnssSet THEN [c |-> "na", v |-> ""]
  ELSE IF id \in DOMAIN SigTable(g) THEN [c |-> "code", v |-> SigTable(g)[id]]
  ELSE IF g = 112 /\ id \in DOMAIN BdsSigAmend THEN [c |-> "lenient", v |-> BdsSigAmend[id]]
  ELSE [c |-> "na", v |-> ""]
=============================================================================
