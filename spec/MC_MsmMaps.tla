---------------------------- MODULE MC_MsmMaps ----------------------------
(* all satellite masks of SatW bits x all signal masks of SigW bits x all   *)
(* cell masks of popcount(sat) x popcount(sig) bits                         *)
EXTENDS MsmMaps, TLC
CONSTANTS SatW, SigW
VARIABLES sm, gm, cm
mvars == <<sm, gm, cm>>

BitSeqs(w) == [1 .. w -> {0, 1}]

Init == /\ sm \in BitSeqs(SatW) /\ gm \in BitSeqs(SigW)
        /\ cm \in BitSeqs(PopCount(sm) * PopCount(gm))
Next == UNCHANGED mvars
Spec == Init /\ [][Next]_mvars

SatsAgree  == DSats(sm) = OSats(sm)
SigsAgree  == DSigs(gm) = OSigs(gm)
CellsAgree == DCells(cm, PopCount(gm)) = OCells(cm, PopCount(sm), PopCount(gm))
Counts     == /\ Len(DSats(sm)) = PopCount(sm)
              /\ Len(DSigs(gm)) = PopCount(gm)
              /\ Len(DCells(cm, PopCount(gm))) = PopCount(cm)
SatMajor   == LET c == DCells(cm, PopCount(gm)) IN
              \A i, j \in 1 .. Len(c) : i < j =>
                 c[i][1] < c[j][1] \/ (c[i][1] = c[j][1] /\ c[i][2] < c[j][2])
=============================================================================
