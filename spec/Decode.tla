------------------------------ MODULE Decode ------------------------------
(***************************************************************************)
(* The payload-definition interpreter of pyrtcm (RTCMMessage.__init__ ->   *)
(* _do_attributes -> _set_attribute* -> _getsatcellmaps) as a small-step   *)
(* state machine over a bit string.                                        *)
(*                                                                         *)
(* Definitions are DATA: the constant Defs maps a message identity to a    *)
(* sequence of AST nodes exported (syntactically) from the repository's    *)
(* live tables by harness/export_tables.py; Fields is the exported         *)
(* data-field table.  This module specifies how a definition is to be      *)
(* READ; whether the tables are the right ones is Layout.tla's business.   *)
(*                                                                         *)
(* One action per critical section of the code:                            *)
(*   Begin       identity from the first 12 bits (+ sub-type for 4076),    *)
(*               table dispatch, stub for undefined identities             *)
(*   Field       one data field: overrun test BEFORE anything is written,  *)
(*               value by data type, name with one _NN per index level,    *)
(*               MSM counts after DF394/5/6, maps after DF396,             *)
(*               harmonic-coefficient counts after IDF038                  *)
(*   Derived     zero-width PRN / CELLPRN / CELLSIG from the maps          *)
(*   EnterGroup / SkipGroup / NextIter / ExitFrame   repeat groups         *)
(*   EnterOpt / SkipOpt                              conditional groups    *)
(*   Finish      trailing bits are ignored                                 *)
(*   any of them may end in st = "fail" (the library raises one of its     *)
(*   own errors and no message is returned)                                *)
(*                                                                         *)
(* Deliberate implementation choices that are modelled, not flagged:       *)
(*   StrAccumulate  STR code units are joined into ONE un-indexed attr     *)
(*   StrDropNul     NUL code units are elided                              *)
(*   MinusZero      sign-magnitude "minus zero" is 0                       *)
(*   Upsert         assigning an existing name keeps its position          *)
(*   NegCount       a negative repeat count means zero iterations          *)
(***************************************************************************)
EXTENDS Integers, Sequences, FiniteSets, TLC, Bits, StdMsm

CONSTANTS Fields,      \* name -> [t, w, sc, us, d]
          Defs,        \* identity -> Seq(node)
          TableOf      \* identity -> "get" | "msm" | "igs"

VARIABLES
  p,        \* payload bytes
  bits,     \* BitsOf(p)
  stack,    \* frames [body, pc, it, cnt, kind]
  off,      \* running bit offset
  idx,      \* group index stack
  attrs,    \* ordered public attribute list (first-insertion order)
  ints,     \* name -> small unsigned value (counters, conditions, MSM counts)
  sats,     \* satellite-mask IDs of the set bits, in order   (after DF394)
  sigs,     \* signal-mask IDs of the set bits, in order      (after DF395)
  cells,    \* <<satIndex, sigIndex>> of the set cells, satellite-major (after DF396)
  mapsOk,   \* the maps have been built (DF396 seen)
  ident,    \* identity string
  mid,      \* message number
  st        \* "begin" | "run" | "ok" | "stub" | "fail"

dvars == <<p, bits, stack, off, idx, attrs, ints, sats, sigs, cells, mapsOk, ident, mid, st>>

---------------------------------------------------------------------------
\* names
Pad2(i) == IF i < 10 THEN "0" \o ToString(i) ELSE ToString(i)
Pad3(i) == IF i < 10 THEN "00" \o ToString(i) ELSE IF i < 100 THEN "0" \o ToString(i) ELSE ToString(i)

RECURSIVE RenderFrom(_, _, _)
RenderFrom(n, ix, k) == IF k > Len(ix) THEN n ELSE RenderFrom(n \o "_" \o Pad2(ix[k]), ix, k + 1)
Render(n, ix) == RenderFrom(n, ix, 1)

\* identity
MidOf(q)     == q[1] * 16 + (q[2] \div 16)
SubtypeOf(q) == (q[2] % 2) * 128 + (q[3] \div 2)
IdentOf(q)   == IF MidOf(q) = 4076 THEN "4076_" \o Pad3(SubtypeOf(q)) ELSE ToString(MidOf(q))
IdBytes(q)   == IF Len(q) >= 2 /\ MidOf(q) = 4076 THEN 3 ELSE 2

\* table dispatch by identity range, as documented for _get_dict
RangeTable(m) == IF m \in 1070 .. 1229 THEN "msm" ELSE IF m = 4076 THEN "igs" ELSE "get"
HasDef(id, m) == id \in DOMAIN Defs /\ TableOf[id] = RangeTable(m)

Gnss == mid \div 10

\* empty attribute template (uniform record shape)
\* n name, k kind, s/m sign and magnitude, c code units, g/id constellation and mask ID,
\* t text; ghost: b base field name, ix group indices, cg counter of the innermost group
Attr0 == [n |-> "", k |-> "", s |-> 0, m |-> << >>, c |-> << >>, g |-> 0, id |-> 0, t |-> "",
          b |-> "", ix |-> << >>, cg |-> ""]
Tag(a, base, ixs, grp) == [a EXCEPT !.b = base, !.ix = ixs, !.cg = grp]
IntAttr(nm, v)  == [Attr0 EXCEPT !.n = nm, !.k = "i", !.s = v.s, !.m = v.m]
StrAttr(nm, cs) == [Attr0 EXCEPT !.n = nm, !.k = "s", !.c = cs]
TxtAttr(nm, tx) == [Attr0 EXCEPT !.n = nm, !.k = "txt", !.t = tx]
PrnAttr(nm, sid) == [Attr0 EXCEPT !.n = nm, !.k = "prn", !.g = Gnss, !.id = sid]
SigAttr(nm, sid) == [Attr0 EXCEPT !.n = nm, !.k = "sig", !.g = Gnss, !.id = sid]

\* magnitude of a small natural number as canonical bits
RECURSIVE NatBits(_)
NatBits(n) == IF n = 0 THEN << >> ELSE Append(NatBits(n \div 2), n % 2)
NatAttr(nm, n) == IntAttr(nm, [s |-> 0, m |-> NatBits(n)])

PosOf(as, nm) == LET S == {i \in 1 .. Len(as) : as[i].n = nm} IN IF S = {} THEN 0 ELSE CHOOSE i \in S : TRUE
Upsert(as, e) == LET i == PosOf(as, e.n) IN IF i = 0 THEN Append(as, e) ELSE [as EXCEPT ![i] = e]

---------------------------------------------------------------------------
Top  == stack[Len(stack)]
\* counter attribute of the innermost open repeat group ("" outside groups / fixed count)
CurGroup == LET G == {i \in 1 .. Len(stack) : stack[i].kind = "grp"}
            IN  IF G = {} THEN "" ELSE stack[CHOOSE i \in G : \A j \in G : j <= i].cg
AtEnd == Top.pc > Len(Top.body)
Node == Top.body[Top.pc]
Advanced == [stack EXCEPT ![Len(stack)].pc = @ + 1]

Fail == /\ st' = "fail"
        /\ UNCHANGED <<p, bits, stack, off, idx, attrs, ints, sats, sigs, cells, mapsOk, ident, mid>>

Derivedtypes == {"PRN", "CPR", "CSG"}

---------------------------------------------------------------------------
Begin ==
  /\ st = "begin"
  /\ IF Len(p) < 2 \/ (MidOf(p) = 4076 /\ Len(p) < 3)
     THEN  \* too short to hold its identity: a library error (class left open)
          /\ st' = "fail"
          /\ UNCHANGED <<stack, attrs, ident, mid>>
     ELSE /\ mid' = MidOf(p)
          /\ ident' = IdentOf(p)
          /\ IF HasDef(IdentOf(p), MidOf(p))
             THEN /\ stack' = << [body |-> Defs[IdentOf(p)], pc |-> 1, it |-> 1, cnt |-> 1, kind |-> "top", cg |-> ""] >>
                  /\ st' = "run"
                  /\ attrs' = << >>
             ELSE \* undefined identity: stub that keeps the payload
                  /\ stack' = << >>
                  /\ st' = "stub"
                  /\ attrs' = << Tag(TxtAttr("DF002", IdentOf(p)), "DF002", << >>, "") >>
  /\ UNCHANGED <<p, bits, off, idx, ints, sats, sigs, cells, mapsOk>>

---------------------------------------------------------------------------
\* width of a field occurrence; -1 if it cannot be determined
WidthOf(n) ==
  IF n = "DF396"
  THEN IF "NSat" \in DOMAIN ints /\ "NSig" \in DOMAIN ints THEN ints["NSat"] * ints["NSig"] ELSE -1
  ELSE Fields[n].w

\* value attribute of a non-derived field occurrence, given its bits b (Len(b) = width)
\* "bad" if the data type cannot be applied
FieldValue(n, nm, b) ==
  LET t == Fields[n].t IN
  CASE t = "INT" -> IF Len(b) = 0 THEN [Attr0 EXCEPT !.k = "bad"] ELSE IntAttr(nm, TwosVal(b))
    [] t = "SNT" -> IF Len(b) = 0 THEN [Attr0 EXCEPT !.k = "bad"] ELSE IntAttr(nm, SignMagVal(b))
    [] t = "CHA" -> IF Len(b) > 20 THEN [Attr0 EXCEPT !.k = "bad"] ELSE StrAttr(nm, << ToInt(b) >>)
    [] t = "STR" -> IF Len(b) > 20 THEN [Attr0 EXCEPT !.k = "bad"]
                    ELSE StrAttr(n, IF ToInt(b) = 0 THEN << >> ELSE << ToInt(b) >>)   \* StrDropNul
    [] OTHER -> IntAttr(nm, UnsignedVal(b))

\* STR: accumulate into one un-indexed attribute
StrJoin(as, e) ==
  LET i == PosOf(as, e.n)
  IN  IF i = 0 THEN Append(as, e)
      ELSE IF as[i].k = "s" THEN [as EXCEPT ![i].c = @ \o e.c] ELSE [as EXCEPT ![i] = e]

SmallUnsigned(n, a) == a.k = "i" /\ a.s = 0 /\ Len(a.m) <= 24 /\ ~Fields[n].sc

\* satellite-major list of the set cells of a cell mask over ns x ng slots
CellsOf(b, ng) ==
  LET pos == SetPositions(b)
  IN  [k \in 1 .. Len(pos) |-> << ((pos[k] - 1) \div ng) + 1, ((pos[k] - 1) % ng) + 1 >>]

\* harmonic-coefficient counts for layer i (4076_201); "none" if a degree/order is missing
CoefCounts(nints, i) ==
  LET a == Render("IDF037", << i >>)
      b == Render("IDF038", << i >>)
  IN  IF a \in DOMAIN nints /\ b \in DOMAIN nints
      THEN LET N == nints[a] + 1
               M == nints[b] + 1
               nc == (((N + 1) * (N + 2)) \div 2) - (((N - M) * (N - M + 1)) \div 2)
           IN  [ok |-> TRUE, nc |-> nc, ns |-> nc - (N + 1)]
      ELSE [ok |-> FALSE, nc |-> 0, ns |-> 0]

Field ==
  /\ st = "run" /\ ~AtEnd /\ Node.k = "fld"
  /\ LET n == Node.n IN
     IF n \notin DOMAIN Fields \/ Fields[n].t = "BAD" THEN Fail
     ELSE IF Fields[n].t \in Derivedtypes
     THEN \* ---- Derived: zero width, value from the maps
          IF ~mapsOk \/ idx = << >> THEN Fail
          ELSE LET i  == idx[1]
                   nm == Render(n, idx)
                   t  == Fields[n].t
               IN  IF (t = "PRN" /\ i > Len(sats)) \/ (t # "PRN" /\ i > Len(cells)) THEN Fail
                   ELSE /\ attrs' = Upsert(attrs, Tag(
                                      IF t = "PRN" THEN PrnAttr(nm, sats[i])
                                      ELSE IF t = "CPR" THEN PrnAttr(nm, sats[cells[i][1]])
                                      ELSE SigAttr(nm, sigs[cells[i][2]]), n, idx, CurGroup))
                        /\ stack' = Advanced
                        /\ UNCHANGED <<p, bits, off, idx, ints, sats, sigs, cells, mapsOk, ident, mid, st>>
     ELSE LET w == WidthOf(n) IN
          IF w < 0 \/ off + w > Len(bits) THEN Fail          \* overrun: nothing is written
          ELSE LET b  == SubSeq(bits, off + 1, off + w)
                   nm == Render(n, idx)
                   a0 == FieldValue(n, nm, b)
                   a  == IF a0.k = "bad" THEN a0
                         ELSE Tag(a0, n, IF Fields[n].t = "STR" THEN << >> ELSE idx, CurGroup)
               IN
               IF a.k = "bad" THEN Fail
               ELSE LET as1 == IF Fields[n].t = "STR" THEN StrJoin(attrs, a) ELSE Upsert(attrs, a)
                        in1 == IF Fields[n].t \notin {"STR", "CHA"} /\ SmallUnsigned(n, a)
                               THEN (nm :> ToInt(a.m)) @@ ints
                               ELSE IF nm \in DOMAIN ints THEN [x \in DOMAIN ints \ {nm} |-> ints[x]]
                               ELSE ints
                        cnt == PopCount(b)
                        \* MSM bookkeeping
                        as2 == IF n = "DF394" THEN Upsert(as1, NatAttr("NSat", cnt))
                               ELSE IF n = "DF395" THEN Upsert(as1, NatAttr("NSig", cnt))
                               ELSE IF n = "DF396" THEN Upsert(as1, NatAttr("NCell", cnt))
                               ELSE as1
                        in2 == IF n = "DF394" THEN ("NSat" :> cnt) @@ in1
                               ELSE IF n = "DF395" THEN ("NSig" :> cnt) @@ in1
                               ELSE IF n = "DF396" THEN ("NCell" :> cnt) @@ in1
                               ELSE in1
                        needCoef == (n = "IDF038")
                        cc == IF needCoef /\ idx # << >> THEN CoefCounts(in2, idx[1])
                              ELSE [ok |-> FALSE, nc |-> 0, ns |-> 0]
                    IN
                    IF needCoef /\ ~cc.ok THEN Fail
                    ELSE IF n = "DF396" /\ Gnss \notin GnssSet THEN Fail     \* no constellation tables
                    ELSE /\ attrs' = as2
                         /\ ints' = IF needCoef
                                    THEN ("_NHarmCoeffC" :> cc.nc) @@ ("_NHarmCoeffS" :> cc.ns) @@ in2
                                    ELSE in2
                         /\ sats' = IF n = "DF394" THEN SetPositions(b) ELSE sats
                         /\ sigs' = IF n = "DF395" THEN SetPositions(b) ELSE sigs
                         /\ cells' = IF n = "DF396" THEN CellsOf(b, Len(sigs)) ELSE cells
                         /\ mapsOk' = (mapsOk \/ n = "DF396")
                         /\ off' = off + w
                         /\ stack' = Advanced
                         /\ UNCHANGED <<p, bits, idx, ident, mid, st>>

---------------------------------------------------------------------------
\* repeat count of a group node in the current context; [ok, n]
CounterName(node) ==
  IF node.nest > Len(idx) THEN "?"
  ELSE Render(node.ca, SubSeq(idx, 1, node.nest))

CountOf(node) ==
  IF node.ct = "fixed" THEN [ok |-> TRUE, n |-> node.cn]
  ELSE LET cn == CounterName(node)
       IN  IF cn \in DOMAIN ints
           THEN [ok |-> TRUE, n |-> ints[cn] + (IF cn = "IDF035" THEN 1 ELSE 0)]
           ELSE [ok |-> FALSE, n |-> 0]

EnterGroup ==
  /\ st = "run" /\ ~AtEnd /\ Node.k = "grp"
  /\ LET c == CountOf(Node) IN
     IF ~c.ok THEN Fail
     ELSE /\ c.n > 0
          /\ stack' = Append(Advanced, [body |-> Node.body, pc |-> 1, it |-> 1, cnt |-> c.n, kind |-> "grp",
                                        cg |-> IF Node.ct = "attr" THEN Node.ca ELSE ""])
          /\ idx' = Append(idx, 1)
          /\ UNCHANGED <<p, bits, off, attrs, ints, sats, sigs, cells, mapsOk, ident, mid, st>>

SkipGroup ==   \* zero (or negative: NegCount) iterations
  /\ st = "run" /\ ~AtEnd /\ Node.k = "grp"
  /\ CountOf(Node).ok /\ CountOf(Node).n <= 0
  /\ stack' = Advanced
  /\ UNCHANGED <<p, bits, off, idx, attrs, ints, sats, sigs, cells, mapsOk, ident, mid, st>>

EnterOpt ==
  /\ st = "run" /\ ~AtEnd /\ Node.k = "opt"
  /\ IF Node.ca \notin DOMAIN ints THEN Fail
     ELSE /\ ints[Node.ca] = Node.cv
          /\ stack' = Append(Advanced, [body |-> Node.body, pc |-> 1, it |-> 1, cnt |-> 1, kind |-> "opt", cg |-> ""])
          /\ UNCHANGED <<p, bits, off, idx, attrs, ints, sats, sigs, cells, mapsOk, ident, mid, st>>

SkipOpt ==
  /\ st = "run" /\ ~AtEnd /\ Node.k = "opt"
  /\ Node.ca \in DOMAIN ints /\ ints[Node.ca] # Node.cv
  /\ stack' = Advanced
  /\ UNCHANGED <<p, bits, off, idx, attrs, ints, sats, sigs, cells, mapsOk, ident, mid, st>>

BadNode ==
  /\ st = "run" /\ ~AtEnd /\ Node.k \notin {"fld", "grp", "opt"}
  /\ Fail

NextIter ==
  /\ st = "run" /\ AtEnd /\ Top.kind = "grp" /\ Top.it < Top.cnt
  /\ stack' = [stack EXCEPT ![Len(stack)].pc = 1, ![Len(stack)].it = @ + 1]
  /\ idx' = [idx EXCEPT ![Len(idx)] = @ + 1]
  /\ UNCHANGED <<p, bits, off, attrs, ints, sats, sigs, cells, mapsOk, ident, mid, st>>

ExitFrame ==
  /\ st = "run" /\ AtEnd /\ Len(stack) > 1
  /\ Top.kind = "opt" \/ Top.it >= Top.cnt
  /\ stack' = SubSeq(stack, 1, Len(stack) - 1)
  /\ idx' = IF Top.kind = "grp" THEN SubSeq(idx, 1, Len(idx) - 1) ELSE idx
  /\ UNCHANGED <<p, bits, off, attrs, ints, sats, sigs, cells, mapsOk, ident, mid, st>>

Finish ==   \* trailing bits are ignored
  /\ st = "run" /\ AtEnd /\ Len(stack) = 1
  /\ st' = "ok"
  /\ UNCHANGED <<p, bits, stack, off, idx, attrs, ints, sats, sigs, cells, mapsOk, ident, mid>>

DecodeNext ==
  Begin \/ Field \/ EnterGroup \/ SkipGroup \/ EnterOpt \/ SkipOpt \/ BadNode
        \/ NextIter \/ ExitFrame \/ Finish

Terminal == st \in {"ok", "stub", "fail"}

\* initial condition for payload q (s0 = "begin" unless a wrapper decides otherwise)
LoadSt(q, s0) ==
  /\ p = q /\ bits = BitsOf(q)
  /\ stack = << >> /\ off = 0 /\ idx = << >> /\ attrs = << >>
  /\ ints = << >>                      \* the empty function
  /\ sats = << >> /\ sigs = << >> /\ cells = << >> /\ mapsOk = FALSE
  /\ ident = "" /\ mid = 0 /\ st = s0
Load(q) == LoadSt(q, "begin")

LoadNextSt(q, s0) ==
  /\ p' = q /\ bits' = BitsOf(q)
  /\ stack' = << >> /\ off' = 0 /\ idx' = << >> /\ attrs' = << >>
  /\ ints' = << >>
  /\ sats' = << >> /\ sigs' = << >> /\ cells' = << >> /\ mapsOk' = FALSE
  /\ ident' = "" /\ mid' = 0 /\ st' = s0
LoadNext(q) == LoadNextSt(q, "begin")

---------------------------------------------------------------------------
\* Invariants of the interpreter (checked by TLC in MC_DecodeMini and at
\* every step of every judged real decode)

\* C06: the running offset never leaves the payload, so no attribute is ever
\* populated from bits outside it
NoOverrun == off <= Len(bits)

\* an index level exists exactly for every open repeat group
IdxDepth == Len(idx) = Cardinality({i \in 1 .. Len(stack) : stack[i].kind = "grp"})

\* C03: public attribute names are distinct
NamesDistinct == Cardinality({attrs[i].n : i \in 1 .. Len(attrs)}) = Len(attrs)

\* C09: counts are the pop-counts of the masks, cells are in satellite-major order
CountsArePopcounts ==
  /\ ("NSat" \in DOMAIN ints => ints["NSat"] = Len(sats))
  /\ ("NSig" \in DOMAIN ints => ints["NSig"] = Len(sigs))
  /\ ("NCell" \in DOMAIN ints => ints["NCell"] = Len(cells))
CellOrder ==
  \A i, j \in 1 .. Len(cells) :
     i < j => \/ cells[i][1] < cells[j][1]
              \/ (cells[i][1] = cells[j][1] /\ cells[i][2] < cells[j][2])
CellsInRange ==
  \A i \in 1 .. Len(cells) : cells[i][1] \in 1 .. Len(sats) /\ cells[i][2] \in 1 .. Len(sigs)
=============================================================================
