--------------------------- MODULE MC_DecodeMini ---------------------------
(***************************************************************************)
(* Exhaustive small-scope model checking of the definition interpreter:    *)
(* every synthetic mini-definition (harness/minidefs.py: all constructs    *)
(* and pairs of constructs over 1..4-bit fields) x EVERY payload with      *)
(* FreeBits free bits after the 12-bit message number.                     *)
(***************************************************************************)
EXTENDS Decode, Json, IOUtils

Tables  == TLCEval(JsonDeserialize(IOEnv.VERIF_TABLES))
MFields == Tables.fields
MDefs   == Tables.defs
MTable  == Tables.table
Hdr     == Tables.hdr          \* identity -> message number

CONSTANT FreeBits              \* number of enumerated bits after the identity (4, 12, 20)

P2(n) == 2 ^ n

\* payload of NBytes bytes: 12 bits number, FreeBits enumerated bits, zero padding
NBytes == 2 + ((FreeBits - 4 + 7) \div 8)
TailBits == 8 * NBytes - 12
\* the w-bit binary expansion of n, MSB first
FixBits(n, w) == [i \in 1 .. w |-> (n \div P2(w - i)) % 2]
PayloadOf(m, t) ==
  LET all == FixBits(m, 12) \o FixBits(t, FreeBits) \o [i \in 1 .. (TailBits - FreeBits) |-> 0]
  IN  [i \in 1 .. NBytes |-> ToInt(SubSeq(all, 8 * (i - 1) + 1, 8 * i))]

MCInit == \E id \in DOMAIN MDefs : \E t \in 0 .. (P2(FreeBits) - 1) : Load(PayloadOf(Hdr[id], t))

Stay == Terminal /\ UNCHANGED dvars
MCNext == DecodeNext \/ Stay
MCSpec == MCInit /\ [][MCNext]_dvars /\ WF_dvars(DecodeNext)

\* C04 (spec side): decoding always terminates in ok | stub | fail
Terminates == <>Terminal

\* a message is produced only if every field lay inside the payload
OkInside == st = "ok" => off <= Len(bits)

\* the stub keeps exactly one attribute
StubShape == st = "stub" => Len(attrs) = 1 /\ attrs[1].k = "txt"

\* attributes are never written after a failure was detected in the same step
TypeOK ==
  /\ st \in {"begin", "run", "ok", "stub", "fail"}
  /\ off \in 0 .. Len(bits)
  /\ \A i \in 1 .. Len(attrs) : attrs[i].k \in {"i", "s", "txt", "prn", "sig"}
=============================================================================
