----------------------------- MODULE SliceJudge -----------------------------
(***************************************************************************)
(* The core of C01 as a predicate on (input stream, delivered frames) that *)
(* needs no model of HOW the reader reads: every delivered raw frame is a  *)
(* well-formed RTCM3 frame (preamble, six zero bits, length field = size   *)
(* of the enclosed payload, CRC-24Q right when validation and parsing are  *)
(* on) that occurs in the input as a CONTIGUOUS slice, the slices in       *)
(* stream order and non-overlapping.                                       *)
(*                                                                         *)
(* Used for executions whose read pattern deviates from Framer.tla AND     *)
(* whose stream injected faults (short / empty answers): FramerTrace does  *)
(* not apply (other requests), FramerOut does not apply (the expected      *)
(* outputs under faults depend on the request sequence) - but what C01     *)
(* states holds "whatever short reads, timeouts or end-of-data the         *)
(* underlying stream injects" and is decided here.  In FramerTrace the     *)
(* same fact holds by construction (cur is the run of consumed bytes).     *)
(* Verdicts: <<"LVERDICT", tid, accept|reject, clause, index, detail>>.    *)
(***************************************************************************)
EXTENDS Integers, Sequences, TLC, Crc24q, Json, IOUtils

Traces == TLCEval(JsonDeserialize(IOEnv.VERIF_TRACES))

VARIABLES ti, k, pos, bad
vars == <<ti, k, pos, bad>>

Tr == Traces[ti]

\* first position >= i at which raw occurs in s (0: nowhere)
RECURSIVE FindFrom(_, _, _)
FindFrom(s, raw, i) ==
  IF i + Len(raw) - 1 > Len(s) THEN 0
  ELSE IF s[i] = raw[1] /\ s[i + Len(raw) - 1] = raw[Len(raw)] /\ SubSeq(s, i, i + Len(raw) - 1) = raw THEN i
  ELSE FindFrom(s, raw, i + 1)

WellFormed(raw) ==
  /\ Len(raw) >= 6 /\ raw[1] = 211 /\ raw[2] < 4
  /\ Len(raw) = 6 + raw[2] * 256 + raw[3]

Step ==
  /\ ti <= Len(Traces) /\ bad = << >> /\ k <= Len(Tr.rets)
  /\ LET raw == Tr.rets[k] IN
     IF ~WellFormed(raw) THEN bad' = <<"SliceMalformed", <<Len(raw)>> >> /\ UNCHANGED <<ti, k, pos>>
     ELSE IF Tr.parsed /\ Tr.validate % 2 = 1 /\ Crc(raw) # 0 THEN bad' = <<"SliceBadCrc", <<Crc(raw)>> >> /\ UNCHANGED <<ti, k, pos>>
     ELSE LET j == FindFrom(Tr.stream, raw, pos) IN
          IF j = 0 THEN bad' = <<"NotASliceInOrder", <<pos, Len(raw), FindFrom(Tr.stream, raw, 1)>> >> /\ UNCHANGED <<ti, k, pos>>
          ELSE pos' = j + Len(raw) /\ k' = k + 1 /\ UNCHANGED <<ti, bad>>

Verdict ==
  /\ ti <= Len(Traces)
  /\ (bad # << >> \/ k > Len(Tr.rets))
  /\ PrintT(<<"LVERDICT", Tr.tid, IF bad = << >> THEN "accept" ELSE "reject",
              IF bad = << >> THEN "SlicesInOrder" ELSE bad[1], k, IF bad = << >> THEN << >> ELSE bad[2]>>)
  /\ ti' = ti + 1 /\ k' = 1 /\ pos' = 1 /\ bad' = << >>

Init == ti = 1 /\ k = 1 /\ pos = 1 /\ bad = << >>
Next == Step \/ Verdict
Spec == Init /\ [][Next]_vars
=============================================================================
