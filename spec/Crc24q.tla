------------------------------ MODULE Crc24q ------------------------------
(***************************************************************************)
(* Pinned oracle (NOT derived from the repository): CRC-24Q as used by     *)
(* RTCM 10403.x - generator polynomial 0x1864CFB                           *)
(*   x^24+x^23+x^18+x^17+x^14+x^11+x^10+x^7+x^6+x^5+x^4+x^3+x+1,           *)
(* most significant bit first, zero initial value, no final XOR.           *)
(*                                                                         *)
(* Two formulations: the bit-serial LFSR (Shift1 / ByteBitwise) which is   *)
(* the definition, and a 256-entry table form (ByteT) which the judges     *)
(* use because it is ~4x cheaper; MC_Crc checks that they are equal.       *)
(***************************************************************************)
EXTENDS Integers, Sequences, Bitwise

Poly  == 25578747          \* 0x1864CFB
Two24   == 16777216          \* 2^24
Mask  == 16777215          \* 2^24 - 1

\* one shift of the LFSR: multiply the 24-bit remainder by x modulo Poly
Shift1(c) == LET d == 2 * c IN IF d >= Two24 THEN d ^^ Poly ELSE d

\* feed one byte, bit-serial (the definition)
ByteBitwise(c, b) ==
  Shift1(Shift1(Shift1(Shift1(Shift1(Shift1(Shift1(Shift1(c ^^ (b * 65536)))))))))

\* 256-entry table: remainder of b * x^24
Table == [b \in 0 .. 255 |-> ByteBitwise(0, b)]

\* feed one byte, table-driven
ByteT(c, b) == ((c % 65536) * 256) ^^ Table[(c \div 65536) ^^ b]

RECURSIVE CrcFrom(_, _, _)
CrcFrom(s, i, c) == IF i > Len(s) THEN c ELSE CrcFrom(s, i + 1, ByteT(c, s[i]))

\* CRC-24Q remainder of a byte sequence
Crc(s) == CrcFrom(s, 1, 0)

RECURSIVE CrcSlowFrom(_, _, _)
CrcSlowFrom(s, i, c) == IF i > Len(s) THEN c ELSE CrcSlowFrom(s, i + 1, ByteBitwise(c, s[i]))
CrcSlow(s) == CrcSlowFrom(s, 1, 0)

\* the three trailer bytes, big-endian
Bytes3(c) == << c \div 65536, (c \div 256) % 256, c % 256 >>
CrcBytes(s) == Bytes3(Crc(s))

\* number of one bits of a natural number
RECURSIVE Weight(_)
Weight(n) == IF n = 0 THEN 0 ELSE (n % 2) + Weight(n \div 2)
=============================================================================
