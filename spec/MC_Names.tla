------------------------------ MODULE MC_Names ------------------------------
(***************************************************************************)
(* Attribute names (C19) over the exported data-field table:               *)
(*   NameInverse   Render(base, indices) is injective on the bases that    *)
(*                 occur inside repeat groups: distinct (base, indices)    *)
(*                 give distinct names, so index and name helpers have a   *)
(*                 well-defined answer                                     *)
(*   GroupedBasesPlain  no base name used inside a repeat group contains   *)
(*                 "_" (otherwise "split on _" cannot recover the base)    *)
(*   DescTotal     every data field has a description                      *)
(***************************************************************************)
EXTENDS Message, Json, IOUtils

Tables  == TLCEval(JsonDeserialize(IOEnv.VERIF_TABLES))
MFields == Tables.fields
MDefs   == Tables.defs
MTable  == Tables.table
GroupedSeq == Tables.grouped       \* base names that occur inside a repeat group
Grouped == {GroupedSeq[i] : i \in 1 .. Len(GroupedSeq)}

VARIABLES b1
nvars == <<b1>>
NInit == b1 \in Grouped /\ Load(<<0, 0>>)
NNext == UNCHANGED <<nvars, dvars>>
NSpec == NInit /\ [][NNext]_<<nvars, dvars>>

Ixs == {<<1>>, <<9>>, <<10>>, <<99>>, <<100>>, <<153>>, <<1, 1>>, <<1, 10>>, <<10, 1>>, <<11, 1>>, <<1, 11>>, <<12, 100>>, <<100, 12>>}

NameInverse ==
  \A b2 \in Grouped : \A i1 \in Ixs, i2 \in Ixs :
     Render(b1, i1) = Render(b2, i2) => (b1 = b2 /\ i1 = i2)
GroupedBasesPlain == b1 \in DOMAIN MFields => ~MFields[b1].us
DescTotal == b1 \in DOMAIN MFields => MFields[b1].d
=============================================================================
