------------------------------ MODULE Framer ------------------------------
(***************************************************************************)
(* RTCMReader.read(): the resynchronising frame-sync state machine, driven *)
(* by an underlying stream that may answer any read with fewer bytes than  *)
(* asked (short read, timeout, end of data).                               *)
(*                                                                         *)
(* One action per critical section of the code.  A read() call is several  *)
(* steps because every underlying read is a point where the ENVIRONMENT    *)
(* acts: Step(ans, oc) is "the stream answered the pending request with    *)
(* the bytes ans"; oc is the decoder's outcome for the payload (the seam   *)
(* to Decode.tla), only looked at when a complete frame is parsed.         *)
(*                                                                         *)
(*   pc   "idle"   no call in progress                                     *)
(*        "b1"     waiting for a sync byte            need 1               *)
(*        "b2"     second header byte                 need 1               *)
(*        "ubx4"   UBX class, id, length              need 4               *)
(*        "ubxN"   UBX payload + checksum             need len + 2         *)
(*        "nmea"   rest of an NMEA sentence           readline             *)
(*        "h3"     third RTCM header byte             need 1               *)
(*        "pay"    RTCM payload                       need size (> 0)      *)
(*        "crc"    RTCM CRC                           need 3               *)
(*   cur  bytes gathered for the item in progress (= every byte consumed   *)
(*        since the item's first byte: the delivered frame is a contiguous *)
(*        slice of the stream BY CONSTRUCTION of the actions)              *)
(*   obs  what the last step made observable (request, follow-up event)    *)
(*                                                                         *)
(* Options (constant during a behaviour): validate, parsed, quit, handler. *)
(*                                                                         *)
(* Specified (repaired) behaviour for a zero-length frame D3 00 00 crc:    *)
(* a zero-size payload is NOT a read and NOT an end of data (pc goes from  *)
(* "h3" straight to "crc").                                                *)
(***************************************************************************)
EXTENDS Integers, Sequences, FiniteSets, TLC, Crc24q

VARIABLES pc, cur, obs,
          got,        \* the answer of the underlying stream to the last request
          validate,   \* flags; bit 0 (VALCKSUM) = validate the checksum
          parsed,     \* BOOLEAN
          quit        \* 0 ignore | 1 log (handler or logger) | 2 raise

fvars == <<pc, cur, obs, got, validate, parsed, quit>>

LoopHeads == {"b1"}
NmeaLetters == {86, 77, 80, 66, 68, 73, 76, 71, 70, 83, 72, 82, 69, 89, 65, 67, 90, 84, 87}   \* V M P B D I L G F S H R E Y A C Z T W

Obs0 == [op |-> "none", req |-> 0, ev |-> "none", cls |-> "", raw |-> << >>, pk |-> "none"]

\* size of the pending request (-1: a line)
Need ==
  CASE pc \in {"b1", "b2", "h3"} -> 1
    [] pc = "ubx4" -> 4
    [] pc = "ubxN" -> cur[5] + 256 * cur[6] + 2
    [] pc = "nmea" -> -1
    [] pc = "pay"  -> cur[2] * 256 + cur[3]
    [] pc = "crc"  -> 3
    [] OTHER -> 0

FrameSize(hdr3) == hdr3[2] * 256 + hdr3[3]

FInit(v, pa, q) ==
  /\ pc = "idle" /\ cur = << >> /\ obs = Obs0 /\ got = << >>
  /\ validate = v /\ parsed = pa /\ quit = q

\* client calls read() (or next())
CallRead ==
  /\ pc = "idle"
  /\ pc' = "b1" /\ cur' = << >>
  /\ obs' = [Obs0 EXCEPT !.op = "call"] /\ got' = << >>
  /\ UNCHANGED <<validate, parsed, quit>>

IoObs == [Obs0 EXCEPT !.op = IF pc = "nmea" THEN "readline" ELSE "read", !.req = Need]

\* error handling (_do_error): ignore / report once and continue / raise and end the call
Dispatch(cls) ==
  /\ cur' = << >>
  /\ IF quit = 2
     THEN pc' = "idle" /\ obs' = [IoObs EXCEPT !.ev = "raise", !.cls = cls]
     ELSE /\ pc' = "b1"
          /\ obs' = IF quit = 1 THEN [IoObs EXCEPT !.ev = "handler", !.cls = cls] ELSE IoObs

\* a complete item that is not RTCM is skipped inside the same call
Skip == pc' = "b1" /\ cur' = << >> /\ obs' = IoObs

Deliver(raw, pk) ==
  /\ pc' = "idle" /\ cur' = << >>
  /\ obs' = [IoObs EXCEPT !.ev = "ret", !.raw = raw, !.pk = pk]

\* end of data: an EMPTY answer to a NON-EMPTY request returns (None, None)
RetEof ==
  /\ pc' = "idle" /\ cur' = << >>
  /\ obs' = [IoObs EXCEPT !.ev = "eof"]

\* frame complete: CRC test iff parsed /\ validate bit 0; decode iff parsed
Complete(raw, oc) ==
  IF ~parsed THEN Deliver(raw, "none")
  ELSE IF validate % 2 = 1 /\ Crc(raw) # 0 THEN Dispatch("RTCMParseError")
  ELSE IF oc.k = "err" THEN Dispatch(oc.cls)
  ELSE Deliver(raw, oc.k)

\* the stream answers the pending request with `ans`
Step(ans, oc) ==
  /\ pc \notin {"idle"}
  /\ got' = ans
  /\ IF pc = "nmea"
     THEN \* ---- line read
          IF ans = << >> THEN RetEof
          ELSE IF ans[Len(ans)] # 10 THEN Dispatch("RTCMStreamError")
          ELSE Skip
     ELSE /\ Len(ans) <= Need
          /\ IF ans = << >> THEN RetEof                      \* Need > 0 in all these states
             ELSE IF Len(ans) < Need THEN Dispatch("RTCMStreamError")   \* short read: bytes consumed and dropped
             ELSE CASE pc = "b1" ->
                         IF ans[1] \in {181, 36, 211}
                         THEN pc' = "b2" /\ cur' = ans /\ obs' = IoObs
                         ELSE pc' = "b1" /\ cur' = << >> /\ obs' = IoObs          \* not a sync byte: discard
                    [] pc = "b2" ->
                         IF cur[1] = 181 /\ ans[1] = 98 THEN pc' = "ubx4" /\ cur' = cur \o ans /\ obs' = IoObs
                         ELSE IF cur[1] = 36 /\ ans[1] \in NmeaLetters THEN pc' = "nmea" /\ cur' = cur \o ans /\ obs' = IoObs
                         ELSE IF cur[1] = 211 /\ ans[1] < 4 THEN pc' = "h3" /\ cur' = cur \o ans /\ obs' = IoObs
                         ELSE Dispatch("RTCMParseError")                          \* unknown protocol header
                    [] pc = "ubx4" -> pc' = "ubxN" /\ cur' = cur \o ans /\ obs' = IoObs
                    [] pc = "ubxN" -> Skip
                    [] pc = "h3" ->
                         /\ cur' = cur \o ans /\ obs' = IoObs
                         /\ pc' = IF FrameSize(cur \o ans) = 0 THEN "crc" ELSE "pay"   \* zero size: no read, no EOF
                    [] pc = "pay" -> pc' = "crc" /\ cur' = cur \o ans /\ obs' = IoObs
                    [] pc = "crc" -> Complete(cur \o ans, oc)
  /\ UNCHANGED <<validate, parsed, quit>>

\* log mode: the user's error handler itself raises - its exception leaves read(); the damaged
\* item has been consumed, so the next call starts at the next item (the handler was called ONCE)
HandlerRaises ==
  /\ pc = "b1" /\ obs.ev = "handler" /\ quit = 1
  /\ pc' = "idle" /\ cur' = << >> /\ got' = << >>
  /\ obs' = [obs EXCEPT !.ev = "hraise"]
  /\ UNCHANGED <<validate, parsed, quit>>

---------------------------------------------------------------------------
\* Invariants of the framer design

TypeOK ==
  /\ pc \in {"idle", "b1", "b2", "ubx4", "ubxN", "nmea", "h3", "pay", "crc"}
  /\ validate \in Nat /\ parsed \in BOOLEAN /\ quit \in {0, 1, 2}      \* validate is a set of flags: bit 0 = checksum

\* cur always has the shape its state promises
CurShape ==
  /\ (pc \in {"idle", "b1"} => cur = << >>)
  /\ (pc = "b2" => Len(cur) = 1 /\ cur[1] \in {181, 36, 211})
  /\ (pc = "h3" => Len(cur) = 2 /\ cur[1] = 211 /\ cur[2] < 4)
  /\ (pc = "pay" => Len(cur) = 3 /\ FrameSize(cur) > 0)
  /\ (pc = "crc" => Len(cur) = 3 + FrameSize(cur))
  /\ (pc = "ubx4" => cur = <<181, 98>>)
  /\ (pc = "ubxN" => Len(cur) = 6)
  /\ (pc = "nmea" => Len(cur) = 2 /\ cur[1] = 36)

\* C01: whatever is delivered is a well-formed frame, exactly delimited;
\* with validation on (and parsing on) its CRC-24Q is right
SliceOK ==
  obs.ev = "ret" =>
    LET raw == obs.raw IN
    /\ Len(raw) >= 6 /\ raw[1] = 211 /\ raw[2] < 4
    /\ Len(raw) = 6 + FrameSize(raw)
    /\ (parsed /\ validate % 2 = 1 => Crc(raw) = 0)
    /\ (parsed <=> obs.pk # "none")

\* C04: only the library's own error classes are ever reported or raised
LibClasses == {"RTCMParseError", "RTCMStreamError", "RTCMTypeError", "RTCMMessageError"}
OnlyLibraryErrors == obs.ev \in {"raise", "handler"} => obs.cls \in LibClasses
\* ignore / log mode never raise; ignore mode never reports
ModeDiscipline ==
  /\ (obs.ev = "raise" => quit = 2)
  /\ (obs.ev \in {"handler", "hraise"} => quit = 1)

\* C17: the number of bytes requested depends on (pc, cur) only, never on an
\* option - so no option can change how many bytes are taken for a frame
\* (Need mentions no option; this invariant pins the request that is observed)
RequestIsNeed == obs.op \in {"read", "readline"} => obs.req # 0
=============================================================================
