------------------------------ MODULE CrcJudge ------------------------------
(* TLC as judge of the real checksum helpers: every record holds a message,  *)
(* the integer calc_crc24q returned and the three bytes crc2bytes returned.  *)
EXTENDS Crc24q, Json, IOUtils, TLC
Records == TLCEval(JsonDeserialize(IOEnv.VERIF_RECORDS))
VARIABLE i
Init == i = 1
Next == /\ i <= Len(Records)
        /\ LET r == Records[i]
               c == Crc(r.m)
           IN  PrintT(<<"CVERDICT", r.rid,
                        IF c = r.crc /\ Bytes3(c) = r.b3 THEN "accept" ELSE "reject",
                        IF c # r.crc THEN "WrongRemainder" ELSE IF Bytes3(c) # r.b3 THEN "WrongBytes" ELSE "Ok",
                        c, r.crc>>)
        /\ i' = i + 1
Spec == Init /\ [][Next]_i
=============================================================================
