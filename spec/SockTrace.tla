----------------------------- MODULE SockTrace -----------------------------
(***************************************************************************)
(* Trace validation of recorded executions of the REAL SocketWrapper       *)
(* against SockBuf.tla.  Events: every recv() on the socket double (data / *)
(* failure / closed), every client call and its return with the public     *)
(* buffer afterwards.  readline is several silent LineStep's of the spec.  *)
(* Verdicts: <<"SVERDICT", tid, "accept"|"reject", clause, pos, detail>>.  *)
(***************************************************************************)
EXTENDS SockBuf, Json, IOUtils

Batch  == TLCEval(JsonDeserialize(IOEnv.VERIF_TRACES))
Traces == Batch.traces
Dict   == Batch.inflate          \* sequence of <<compressed, inflated>> pairs (computed with zlib by the harness)

TrInflate(x) ==
  LET K == {i \in 1 .. Len(Dict) : Dict[i][1] = x}
  IN  IF K = {} THEN x ELSE Dict[CHOOSE i \in K : TRUE][2]

VARIABLES ti, k, bad, chunkedv,
          ref,       \* chunked mode: state of the grammar-shaped reference decoder over rcvd
          failedC    \* chunked mode: a receive failed during the pending call
tvars == <<ti, k, bad, chunkedv, ref, failedC>>
allvars == <<svars, tvars>>

Tr == Traces[ti]
Ev == Tr.ev[k]

LoadT ==
  /\ net' = << >> /\ closed' = FALSE /\ buffer' = << >> /\ partial' = << >>
  /\ call' = [NoCall EXCEPT !.op = "init"]
  /\ last' = [op |-> "none", data |-> << >>, n |-> 0, failed |-> FALSE]
  /\ rcvd' = << >> /\ delivered' = << >>

Fits(e) ==
  CASE e.e = "recv" ->
         /\ Wants
         /\ (e.kind = "data" => e.data # << >> /\ Len(e.data) <= e.bufsize)
    [] e.e = "call" -> call.op = "none"
    [] e.e = "ret" -> /\ call.op = e.op
                      /\ (e.op = "read" => (call.failed \/ Len(buffer) >= call.n))
                      /\ (e.op = "readline" => call.failed)
    [] e.e = "retdone" -> call.op = "none" /\ last.op = "readline"     \* successful readline (LineStep finished it)
    [] OTHER -> FALSE

\* ---- chunked mode: envelope validation -----------------------------------------
\* The property (C12) fixes WHAT is delivered, not WHEN a chunk is released: at every
\* return, what has been handed out plus what is buffered must contain every chunk whose
\* terminating CRLF has arrived and may run ahead up to the chunks whose data is complete
\* (without compression: up to any data byte received) - and must be a prefix of it.
Upper == IF Tr.enc = 1 THEN ref.outa ELSE ref.outd
ConsumeChunked ==
  /\ Chunked
  /\ ti <= Len(Traces) /\ bad = << >> /\ k <= Len(Tr.ev)
  /\ LET e == Ev IN
     CASE e.e = "recv" ->
            /\ IF e.kind = "data"
               THEN /\ ref' = D!RefFrom(e.data, 1, ref) /\ rcvd' = rcvd \o e.data /\ UNCHANGED failedC
                    /\ bad' = IF Len(e.data) <= e.bufsize /\ e.data # << >> THEN << >> ELSE <<"RecvTooLong", <<Len(e.data), e.bufsize>> >>
               ELSE /\ failedC' = TRUE /\ UNCHANGED <<ref, rcvd>> /\ bad' = << >>
            /\ UNCHANGED <<net, closed, buffer, partial, call, last, delivered>>
       [] e.e = "call" ->
            /\ call' = [NoCall EXCEPT !.op = e.op, !.n = e.n] /\ failedC' = FALSE
            /\ bad' = IF call.op \in {"none", "init"} THEN << >> ELSE <<"CallWhileBusy", <<call.op>> >>
            /\ UNCHANGED <<net, closed, buffer, partial, last, rcvd, delivered, ref>>
       [] e.e \in {"ret", "retdone"} ->
            LET d2 == delivered \o e.data
                all == d2 \o e.buffer
            IN
            /\ delivered' = d2 /\ buffer' = e.buffer /\ call' = NoCall
            /\ bad' = IF e.op = "read" /\ ~(Len(e.data) = call.n \/ (e.data = << >> /\ failedC))
                            THEN <<"WrongSize", <<call.n, Len(e.data), failedC>> >>
                      ELSE IF ~IsPrefix(all, Upper) THEN <<"NotAPrefixOfDecoded", <<Len(all), Len(Upper)>> >>
                      ELSE IF ~IsPrefix(ref.outc, all) THEN <<"CompleteChunkMissing", <<Len(all), Len(ref.outc)>> >>
                      ELSE IF ~IsPrefix(buffer, delivered' \o e.buffer) /\ FALSE THEN <<"x", << >> >>
                      ELSE << >>
            /\ UNCHANGED <<net, closed, partial, last, rcvd, ref, failedC>>
       [] OTHER -> bad' = <<"UnknownEvent", <<e.e>> >> /\ UNCHANGED <<svars, ref, failedC>>
  /\ k' = k + 1 /\ UNCHANGED <<ti, chunkedv>>

\* ---- plain mode, envelope validation (second, weaker binding) ------------------------
\* Used only for a trace that the exact binding below rejects because an event does not fit
\* the specification's RECEIVE PATTERN (e.g. a wrapper that receives before it has to, or
\* scans its buffer for the line end instead of taking one byte at a time).  C11 fixes what
\* is returned - exactly n bytes or nothing after a failed receive, whole lines, and
\* delivered \o buffer = received at every return (nothing lost, duplicated, reordered; a
\* timeout loses no buffered data) - not when recv() is called.
EndsCrLf(d) == Len(d) >= 2 /\ d[Len(d) - 1] = 13 /\ d[Len(d)] = 10
CrLfInside(d) == \E i \in 1 .. Len(d) - 2 : d[i] = 13 /\ d[i + 1] = 10
ConsumeEnvelopePlain ==
  /\ ~Chunked
  /\ ti <= Len(Traces) /\ Tr.env /\ bad = << >> /\ k <= Len(Tr.ev)
  /\ LET e == Ev IN
     CASE e.e = "recv" ->
            /\ IF e.kind = "data"
               THEN /\ rcvd' = rcvd \o e.data /\ UNCHANGED failedC
                    /\ bad' = IF Len(e.data) <= e.bufsize /\ e.data # << >> THEN << >> ELSE <<"RecvTooLong", <<Len(e.data), e.bufsize>> >>
               ELSE /\ failedC' = TRUE /\ UNCHANGED rcvd /\ bad' = << >>
            /\ UNCHANGED <<net, closed, buffer, partial, call, last, delivered, ref>>
       [] e.e = "call" ->
            /\ call' = [NoCall EXCEPT !.op = e.op, !.n = e.n] /\ failedC' = FALSE
            /\ bad' = IF call.op \in {"none", "init"} THEN << >> ELSE <<"CallWhileBusy", <<call.op>> >>
            /\ UNCHANGED <<net, closed, buffer, partial, last, rcvd, delivered, ref>>
       [] e.e \in {"ret", "retdone"} ->
            LET d2 == delivered \o e.data
                all == d2 \o e.buffer
            IN
            /\ delivered' = d2 /\ buffer' = e.buffer /\ call' = NoCall
            /\ bad' = IF e.op = "read" /\ ~(Len(e.data) = call.n \/ (e.data = << >> /\ failedC))
                            THEN <<"WrongSize", <<call.n, Len(e.data), failedC>> >>
                      ELSE IF e.op = "readline" /\ ~failedC /\ ~EndsCrLf(e.data) THEN <<"LineNotTerminated", <<Len(e.data)>> >>
                      ELSE IF e.op = "readline" /\ CrLfInside(e.data) THEN <<"LinePastTerminator", <<Len(e.data)>> >>
                      ELSE IF all # rcvd THEN <<"BytesLostOrInvented", <<Len(all), Len(rcvd)>> >>
                      ELSE << >>
            /\ UNCHANGED <<net, closed, partial, last, rcvd, ref, failedC>>
       [] OTHER -> bad' = <<"UnknownEvent", <<e.e>> >> /\ UNCHANGED <<svars, ref, failedC>>
  /\ k' = k + 1 /\ UNCHANGED <<ti, chunkedv>>

Consume ==
  /\ ~Chunked
  /\ UNCHANGED <<ref, failedC>>
  /\ ti <= Len(Traces) /\ ~Tr.env /\ bad = << >> /\ k <= Len(Tr.ev)
  /\ LET e == Ev IN
     IF ~Fits(e)
     THEN /\ bad' = <<"EventDoesNotFit", <<e.e, e.op, call.op, Len(buffer), call.n, call.failed>> >>
          /\ UNCHANGED <<svars, ti, k, chunkedv>>
     ELSE /\ CASE e.e = "recv" ->
                   /\ IF e.kind = "data" THEN RecvSeg(e.data) /\ UNCHANGED net
                      ELSE IF e.kind = "closed" THEN RecvClosed ELSE RecvFail
                   /\ bad' = << >>
              [] e.e = "call" ->
                   /\ IF e.op = "read" THEN CallRead(e.n) ELSE CallReadline
                   /\ bad' = << >>
              [] e.e = "ret" ->
                   /\ IF e.op = "read" THEN RetRead ELSE RetReadlineFail
                   /\ bad' = IF last'.data # e.data THEN <<"WrongData", <<e.op, Len(last'.data), Len(e.data)>> >>
                             ELSE IF buffer' # e.buffer THEN <<"WrongBuffer", <<Len(buffer'), Len(e.buffer)>> >>
                             ELSE << >>
              [] e.e = "retdone" ->
                   /\ UNCHANGED svars
                   /\ bad' = IF last.data # e.data THEN <<"WrongData", <<e.op, Len(last.data), Len(e.data)>> >>
                             ELSE IF buffer # e.buffer THEN <<"WrongBuffer", <<Len(buffer), Len(e.buffer)>> >>
                             ELSE << >>
          /\ k' = k + 1 /\ UNCHANGED <<ti, chunkedv>>

\* silent: one character of a pending readline
Silent ==
  /\ ~Chunked
  /\ ti <= Len(Traces) /\ ~Tr.env /\ bad = << >>
  /\ LineStep
  /\ UNCHANGED tvars

Verdict ==
  /\ ti <= Len(Traces)
  /\ ~ENABLED Silent
  /\ (bad # << >> \/ k > Len(Tr.ev))
  /\ PrintT(<<"SVERDICT", Tr.tid, IF bad = << >> THEN "accept" ELSE "reject",
              IF bad = << >> THEN "Conforms" ELSE bad[1], k, IF bad = << >> THEN << >> ELSE bad[2]>>)
  /\ ti' = ti + 1 /\ k' = 1 /\ bad' = << >>
  /\ chunkedv' = chunkedv /\ ref' = D!R0 /\ failedC' = FALSE
  /\ LoadT

TInit ==
  /\ ti = 1 /\ k = 1 /\ bad = << >> /\ chunkedv = Chunked
  /\ ref = D!R0 /\ failedC = FALSE
  /\ SInit(<< >>)

\* Consume must not run ahead of a pending silent step
TNext == Silent \/ (~ENABLED Silent /\ Consume) \/ ConsumeChunked \/ ConsumeEnvelopePlain \/ Verdict
TSpec == TInit /\ [][TNext]_allvars
=============================================================================
