------------------------------ MODULE Message ------------------------------
(***************************************************************************)
(* The message object around a decode: framing (serialise / static parse), *)
(* identity-derived predicates, immutability, and the derived views        *)
(* (parse_msm, parse_4076_201, att2idx, att2name, datadesc), all stated    *)
(* over the state of Decode.tla after a terminated decode:                 *)
(*   p, ident, mid, attrs (each with ghost base b, indices ix, group cg),  *)
(*   sats, sigs, cells.                                                    *)
(***************************************************************************)
EXTENDS Decode, Crc24q

\* ---- framing (C07) --------------------------------------------------------
\* 0xD3, six zero bits + 10-bit length (big-endian 16 bits), payload, CRC-24Q
Header(q) == << 211, Len(q) \div 256, Len(q) % 256 >>
Frame(q)  == LET h == Header(q) \o q IN h \o CrcBytes(h)
Canonical(q) == Len(q) <= 1023 => Frame(q)[2] < 4          \* top six length bits zero

\* ---- small helpers (beyond the listed properties) -----------------------------
\* get_bit(data, n): bit n (0-based, MSB first) of a byte string
GetBit(data, n) == BitAt(data, n + 1)
\* len2bytes(payload): the two length bytes of the frame header
Len2Bytes(q) == << Len(q) \div 256, Len(q) % 256 >>
\* tow2utc(tow): time of day (h, m, s, ms) of GPS time-of-week `tow` milliseconds minus 18 leap seconds
Tow2Utc(t) == LET x == (t + 86400000 - 18000) % 86400000
              IN  << x \div 3600000, (x \div 60000) % 60, (x \div 1000) % 60, x % 1000 >>
\* str(msg) shows the identity and then every public attribute, in decode order,
\* as name=value; a stub ends with the Not_Yet_Implemented marker
StrNames == [i \in 1 .. Len(attrs) |-> attrs[i].n]

\* ---- identity-derived (C15) ------------------------------------------------
\* "yes": implemented MSM1-7 of the seven constellations; "no": outside the MSM
\* block 1070..1229; "free": reserved numbers inside the block (C15 leaves ismsm open)
MsmSpec(m) ==
  IF m \notin 1070 .. 1229 THEN "no"
  ELSE IF (m \div 10) \in 107 .. 113 /\ (m % 10) \in 1 .. 7 THEN "yes" ELSE "free"

\* ---- MSM array helper (C18) ------------------------------------------------
EpochField(g) ==
  CASE g = 107 -> "DF004" [] g = 108 -> "DF034" [] g = 109 -> "DF248" [] g = 110 -> "DF004"
    [] g = 111 -> "DF428" [] g = 112 -> "DF427" [] g = 113 -> "DF546" [] OTHER -> "?"

\* attribute positions belonging to entry i of the groups counted by `grp`
EntryOf(grp, i) == {j \in 1 .. Len(attrs) : attrs[j].cg = grp /\ attrs[j].ix = << i >>}

\* positions of the attributes with base name b whose first index is l, ascending
RECURSIVE PosFrom(_, _, _)
PosFrom(b, l, j) ==
  IF j > Len(attrs) THEN << >>
  ELSE IF attrs[j].b = b /\ Len(attrs[j].ix) >= 1 /\ attrs[j].ix[1] = l
       THEN << j >> \o PosFrom(b, l, j + 1) ELSE PosFrom(b, l, j + 1)
LayerPos(b, l) == PosFrom(b, l, 1)

NumLayers == Cardinality({attrs[j].ix[1] : j \in {k \in 1 .. Len(attrs) : attrs[k].b = "IDF036" /\ Len(attrs[k].ix) = 1}})
=============================================================================
