------------------------------- MODULE MC_Sock -------------------------------
(***************************************************************************)
(* Model checking SockBuf.tla over ALL partitions of the source into       *)
(* receives (lazy Recv(k)), all bufsize values, client read sizes 0..MaxN  *)
(* and readline, failures between any two receives, peer close.            *)
(*  Plain mode:   every source over Sym up to MaxLen bytes.                *)
(*  Chunked mode: every well-formed chunked body of up to MaxChunks chunks *)
(*     drawn from ChunkPool (data holding CR / LF bytes, sizes 1, 2, 3 and *)
(*     10 with upper/lower-case hex), with / without the zero chunk.       *)
(***************************************************************************)
EXTENDS SockBuf

CONSTANTS Sym, MaxLen, MaxN, MaxFail, MaxChunks, WithCalls

IdInflate(x) == x

VARIABLES fails
vars == <<svars, fails>>

Seqs(S, n) == [1 .. n -> S]
PlainSources == UNION {Seqs(Sym, n) : n \in 0 .. MaxLen}

\* chunk data pool: plain, holding CRLF, ending in CR, long (size "a" / "A")
ChunkPool == { <<65>>, <<13, 10>>, <<66, 67, 13>>, <<10>>, [i \in 1 .. 10 |-> 70 + i] }
HexLower(n) == IF n = 10 THEN <<97>> ELSE <<48 + n>>
HexUpper(n) == IF n = 10 THEN <<65>> ELSE <<48 + n>>
Enc(d, up) == (IF up THEN HexUpper(Len(d)) ELSE HexLower(Len(d))) \o <<13, 10>> \o d \o <<13, 10>>
ZeroChunk == <<48, 13, 10, 13, 10>>
RECURSIVE Bodies(_)
Bodies(n) == IF n = 0 THEN {<< >>}
             ELSE LET B == Bodies(n - 1) IN B \cup {b \o Enc(d, up) : b \in B, d \in ChunkPool, up \in BOOLEAN}
ChunkSources == {b \o z : b \in Bodies(MaxChunks), z \in {<< >>, ZeroChunk}}

Init == /\ \E src \in (IF Chunked THEN ChunkSources ELSE PlainSources) : SInit(src)
        /\ fails = 0

Next ==
  \/ (\E k \in 1 .. BufSize : Recv(k)) /\ UNCHANGED fails
  \/ RecvFail /\ fails < MaxFail /\ fails' = fails + 1
  \/ RecvClosed /\ UNCHANGED fails
  \/ WithCalls /\ (\E n \in 0 .. MaxN : CallRead(n)) /\ UNCHANGED fails
  \/ RetRead /\ UNCHANGED fails
  \/ WithCalls /\ CallReadline /\ UNCHANGED fails
  \/ LineStep /\ UNCHANGED fails
  \/ RetReadlineFail /\ UNCHANGED fails
  \* without client reads the client just keeps polling: models "drain everything"
  \/ ~WithCalls /\ CallRead(MaxN) /\ UNCHANGED fails
Spec == Init /\ [][Next]_vars

\* the sources are complete bodies: once everything has arrived nothing is left undecoded
\* (after the zero chunk the body is over; a split trailing CRLF may stay behind undecoded)
AllDecodedAtEnd == (net = << >> /\ (~Chunked \/ D!Ref(rcvd).m # "done")) => partial = << >>
=============================================================================
