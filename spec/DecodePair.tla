----------------------------- MODULE DecodePair -----------------------------
(***************************************************************************)
(* Two-run (relational) lemmas of the definition interpreter, by           *)
(* self-composition: instance A decodes a payload p, instance B a VARIANT  *)
(* of p, in lockstep.  Checked by TLC for every mini-definition, every     *)
(* payload with FreeBits enumerated bits and every variant of the kind:    *)
(*                                                                         *)
(*  Kind = "cut"   B = p truncated to c whole bytes (every c that still     *)
(*                 holds the identity).                                     *)
(*     PrefixMonotone: as long as B has not failed, B's machine state is    *)
(*     EXACTLY A's (same steps, same offset, same attributes); B can only   *)
(*     stop by failing, and it fails exactly at the first step where A      *)
(*     reads a field that ends beyond the cut.  Hence: a truncation to c    *)
(*     bytes is rejected iff 8c < bits A consumes - unless A fails earlier. *)
(*  Kind = "tail"  B = p with extra bytes appended (any value).             *)
(*     TailIndependent: B never fails before A, every step is identical,    *)
(*     and the final attribute lists are equal whenever A succeeds.         *)
(***************************************************************************)
EXTENDS Integers, Sequences, FiniteSets, TLC, Json, IOUtils

Tab == TLCEval(JsonDeserialize(IOEnv.VERIF_TABLES))
PFields == Tab.fields
PDefs   == Tab.defs
PTable  == Tab.table
Hdr     == Tab.hdr

CONSTANTS FreeBits, Kind

VARIABLES
  pA, bitsA, stackA, offA, idxA, attrsA, intsA, satsA, sigsA, cellsA, mapsOkA, identA, midA, stA,
  pB, bitsB, stackB, offB, idxB, attrsB, intsB, satsB, sigsB, cellsB, mapsOkB, identB, midB, stB,
  diverged,     \* the step at which B failed while A went on: [offA0, offA1] or << >>
  layoutA,      \* ghost: the fields A has read so far: <<name, attribute name, from, to>>
  flipped       \* Kind = "flip": the (1-based) payload bit in which B differs from A; else 0

A == INSTANCE Decode WITH Fields <- PFields, Defs <- PDefs, TableOf <- PTable,
       p <- pA, bits <- bitsA, stack <- stackA, off <- offA, idx <- idxA, attrs <- attrsA, ints <- intsA,
       sats <- satsA, sigs <- sigsA, cells <- cellsA, mapsOk <- mapsOkA, ident <- identA, mid <- midA, st <- stA
B == INSTANCE Decode WITH Fields <- PFields, Defs <- PDefs, TableOf <- PTable,
       p <- pB, bits <- bitsB, stack <- stackB, off <- offB, idx <- idxB, attrs <- attrsB, ints <- intsB,
       sats <- satsB, sigs <- sigsB, cells <- cellsB, mapsOk <- mapsOkB, ident <- identB, mid <- midB, st <- stB

varsA == <<pA, bitsA, stackA, offA, idxA, attrsA, intsA, satsA, sigsA, cellsA, mapsOkA, identA, midA, stA>>
varsB == <<pB, bitsB, stackB, offB, idxB, attrsB, intsB, satsB, sigsB, cellsB, mapsOkB, identB, midB, stB>>
vars == <<varsA, varsB, diverged, layoutA, flipped>>

P2(n) == 2 ^ n
NBytes == 2 + ((FreeBits - 4 + 7) \div 8)
TailBits == 8 * NBytes - 12
FixBits(n, w) == [i \in 1 .. w |-> (n \div P2(w - i)) % 2]
RECURSIVE ToIntAcc(_, _, _)
ToIntAcc(b, i, acc) == IF i > Len(b) THEN acc ELSE ToIntAcc(b, i + 1, 2 * acc + b[i])
PayloadOf(m, t) ==
  LET all == FixBits(m, 12) \o FixBits(t, FreeBits) \o [i \in 1 .. (TailBits - FreeBits) |-> 0]
  IN  [i \in 1 .. NBytes |-> ToIntAcc(SubSeq(all, 8 * (i - 1) + 1, 8 * i), 1, 0)]

Variants(q) ==
  IF Kind = "cut" THEN {SubSeq(q, 1, c) : c \in 2 .. (Len(q) - 1)}
  ELSE {q \o <<x>> : x \in {0, 255, 170}} \cup {q \o <<85, 3>>}

\* q with payload bit b (1-based, MSB first) inverted
FlipBit(q, b) ==
  LET i == ((b - 1) \div 8) + 1
      m == P2(7 - ((b - 1) % 8))
  IN  [q EXCEPT ![i] = IF (@ \div m) % 2 = 1 THEN @ - m ELSE @ + m]

Init ==
  /\ \E id \in DOMAIN PDefs : \E t \in 0 .. (P2(FreeBits) - 1) :
       LET q == PayloadOf(Hdr[id], t) IN
       /\ A!Load(q)
       /\ IF Kind = "flip"
          THEN \E b \in 13 .. (12 + FreeBits) : B!Load(FlipBit(q, b)) /\ flipped = b
          ELSE (\E v \in Variants(q) : B!Load(v)) /\ flipped = 0
  /\ diverged = << >> /\ layoutA = << >>

\* lockstep: both machines step together while both can
\* ghost: A's field layout (a step that moved the offset read the field at the top of A's stack)
Track == layoutA' = IF offA' # offA /\ stackA # << >>
                    THEN Append(layoutA, <<A!Node.n, A!Render(A!Node.n, IF PFields[A!Node.n].t = "STR" THEN << >> ELSE idxA), offA + 1, offA'>>)
                    ELSE layoutA
Both == /\ ~A!Terminal /\ ~B!Terminal
        /\ A!DecodeNext /\ B!DecodeNext /\ Track
        /\ diverged' = IF stB' = "fail" /\ stA' # "fail" THEN <<offA, offA'>> ELSE diverged
        /\ UNCHANGED flipped
OnlyA == /\ ~A!Terminal /\ B!Terminal /\ A!DecodeNext /\ Track /\ UNCHANGED <<varsB, diverged, flipped>>
OnlyB == /\ A!Terminal /\ ~B!Terminal /\ B!DecodeNext /\ UNCHANGED <<varsA, diverged, layoutA, flipped>>
Next == Both \/ OnlyA \/ OnlyB
Spec == Init /\ [][Next]_vars

SameMachine ==
  /\ stackB = stackA /\ offB = offA /\ idxB = idxA /\ attrsB = attrsA /\ intsB = intsA
  /\ satsB = satsA /\ sigsB = sigsA /\ cellsB = cellsA /\ mapsOkB = mapsOkA /\ identB = identA /\ stB = stA

\* ---- Kind = "cut" -----------------------------------------------------------------
\* while B is alive it IS A; if B ended, it ended by failing (a truncation never yields
\* a different message), at a step where A consumed bits beyond the cut - or together with A
PrefixMonotone ==
  Kind = "cut" =>
    /\ (stB \in {"begin", "run"} => SameMachine)
    /\ (B!Terminal /\ stB # "fail" => (A!Terminal => SameMachine))
    /\ (diverged # << >> => diverged[2] > Len(bitsB) /\ diverged[1] <= Len(bitsB))
    /\ (B!Terminal /\ stB # "fail" /\ A!Terminal => stA = stB)
\* the decision rule the harness may rely on
CutRule ==
  (Kind = "cut" /\ A!Terminal /\ B!Terminal /\ stA = "ok") => ((stB = "fail") <=> (offA > Len(bitsB)))

\* ---- Kind = "tail" ----------------------------------------------------------------
TailIndependent ==
  Kind = "tail" =>
    /\ (stA \in {"begin", "run"} => SameMachine)
    /\ (A!Terminal /\ B!Terminal /\ stA \in {"ok", "stub"} => (attrsB = attrsA /\ stB = stA))
    /\ (stB = "fail" => stA = "fail" \/ ~A!Terminal)

\* ---- Kind = "flip" ----------------------------------------------------------------
\* names that steer the decoding (repeat counters, conditions, masks, harmonic degree/order,
\* identity): a field is PLAIN if its name is none of them
RECURSIVE Steering(_)
Steering(body) ==
  UNION {IF body[i].k = "grp" THEN (IF body[i].ct = "attr" THEN {body[i].ca} ELSE {}) \cup Steering(body[i].body)
         ELSE IF body[i].k = "opt" THEN {body[i].ca} \cup Steering(body[i].body)
         ELSE {} : i \in 1 .. Len(body)}
NotPlain(id) == Steering(PDefs[id]) \cup {"DF002", "IDF001", "IDF002", "DF394", "DF395", "DF396", "IDF035", "IDF037", "IDF038"}

\* the layout entry of A that holds the flipped bit (0 if the bit lies behind the last field)
Holder == LET H == {i \in 1 .. Len(layoutA) : layoutA[i][3] <= flipped /\ flipped <= layoutA[i][4]}
          IN  IF H = {} THEN 0 ELSE CHOOSE i \in H : TRUE

\* FieldLocal (C03): inverting one bit of a plain field changes that attribute and nothing else -
\* same outcome, same names in the same order, same values everywhere else; a bit behind the last
\* field changes nothing at all
FieldLocal ==
  (Kind = "flip" /\ A!Terminal /\ B!Terminal /\ stA = "ok") =>
    LET h == Holder IN
    IF h = 0 THEN (stB = "ok" /\ attrsB = attrsA)
    ELSE (layoutA[h][1] \notin NotPlain(identA)) =>
           /\ stB = "ok" /\ Len(attrsB) = Len(attrsA)
           /\ \A i \in 1 .. Len(attrsA) :
                 /\ attrsB[i].n = attrsA[i].n
                 /\ (attrsA[i].n # layoutA[h][2] => attrsB[i] = attrsA[i])
           \* (the attribute itself need not change: sign-magnitude "minus zero" and elided NULs
           \*  make the value map non-injective)
=============================================================================
