----------------------------- MODULE FramerOut -----------------------------
(***************************************************************************)
(* OUTPUT-LEVEL validation of recorded executions of the real RTCMReader   *)
(* against Framer.tla: the second, weaker binding, used only when the      *)
(* exact binding (FramerTrace: every request the reader makes on its       *)
(* stream must be the request `Need` of the specification) rejects a trace *)
(* for its READ PATTERN alone.  The listed properties speak about what is  *)
(* delivered, not about how many bytes are asked for at a time; a reader   *)
(* that takes header and length in one request, or reads ahead, still has  *)
(* every property - FramerTrace alone would raise a false alarm on it.     *)
(*                                                                         *)
(* Here the ENVIRONMENT is the recorded stream itself (fault-free: the     *)
(* bytes, then end of data): the specification's own requests are served   *)
(* from it, silently, and only the OBSERVABLES are compared with the       *)
(* record, in order:  call, handler(cls), raise(cls), ret(raw, kind),      *)
(* eof, hraise (the user's handler raised).                                *)
(*                                                                         *)
(* The decoder's outcome for a complete, CRC-accepted frame is the seam to *)
(* Decode.tla and is taken from the next recorded observable (the payloads *)
(* are judged by DecodeJudge separately; FRAME tuples are printed for the  *)
(* composition check), restricted to the decoder's two error classes.      *)
(* Verdicts: <<"OVERDICT", tid, accept|reject, clause, k, detail>>.        *)
(***************************************************************************)
EXTENDS Framer, Json, IOUtils

Traces == TLCEval(JsonDeserialize(IOEnv.VERIF_TRACES))

VARIABLES ti,        \* index of the trace being validated
          k,         \* index of the next recorded observable
          sp,        \* number of stream bytes the specification has consumed
          bad        \* << >> or <<clause, detail>>
tvars == <<ti, k, sp, bad>>
vars == <<fvars, tvars>>

Tr == Traces[ti]
L == Len(Tr.stream)
NoOb == [t |-> "end", cls |-> "", lib |-> TRUE, raw |-> << >>, pk |-> "none", anycls |-> FALSE]
Peek == IF k <= Len(Tr.ob) THEN Tr.ob[k] ELSE NoOb

DecoderErrors == {"RTCMTypeError", "RTCMMessageError"}

RECURSIVE FindLf(_)
FindLf(j) == IF j > L THEN L ELSE IF Tr.stream[j] = 10 THEN j ELSE FindLf(j + 1)

\* what the stream answers to the specification's pending request
Answer ==
  IF pc = "nmea" THEN SubSeq(Tr.stream, sp + 1, FindLf(sp + 1))
  ELSE SubSeq(Tr.stream, sp + 1, IF sp + Need < L THEN sp + Need ELSE L)

\* decoder outcome of the frame `raw`, read off the next recorded observable
OutcomeFor(raw) ==
  LET p == Peek IN
  IF p.t = "ret" /\ p.raw = raw /\ p.pk # "none" THEN [k |-> p.pk, cls |-> ""]
  ELSE IF p.t \in {"handler", "raise"} /\ p.cls \in DecoderErrors THEN [k |-> "err", cls |-> p.cls]
  ELSE [k |-> "err", cls |-> "RTCMTypeError"]

\* does the specification's observable equal the recorded one?
Same(o, p) ==
  /\ o.ev = p.t
  /\ (o.ev \in {"handler", "raise"} => (o.cls = p.cls \/ p.anycls) /\ p.lib)
  /\ (o.ev = "ret" => o.raw = p.raw /\ o.pk = p.pk)

Load(t) ==
  /\ pc' = "idle" /\ cur' = << >> /\ obs' = Obs0 /\ got' = << >>
  /\ validate' = t.validate /\ parsed' = t.parsed /\ quit' = t.quit

Advance ==
  /\ ti <= Len(Traces) /\ bad = << >>
  /\ IF pc = "idle"
     THEN \* between calls: only a call (or the end of the record) can follow
          /\ k <= Len(Tr.ob)
          /\ IF Peek.t = "call" THEN CallRead /\ k' = k + 1 /\ UNCHANGED <<ti, sp, bad>>
             ELSE bad' = <<"OutputWithoutCall", <<Peek.t, Peek.cls>> >> /\ UNCHANGED <<fvars, ti, k, sp>>
     ELSE IF pc = "b1" /\ obs.ev = "handler" /\ Peek.t = "hraise" /\ Tr.hraise
     THEN HandlerRaises /\ k' = k + 1 /\ UNCHANGED <<ti, sp, bad>>
     ELSE LET ans == Answer
              raw == cur \o ans
              full == pc = "crc" /\ Len(ans) = 3 IN
          /\ Step(ans, IF full THEN OutcomeFor(raw) ELSE [k |-> "err", cls |-> "RTCMTypeError"])
          /\ sp' = sp + Len(ans)
          /\ (full => PrintT(<<"FRAME", Tr.tid, k, raw, IF obs'.ev = "none" THEN "none" ELSE obs'.ev>>))
          /\ UNCHANGED ti
          /\ IF obs'.ev = "none" THEN UNCHANGED <<k, bad>>
             ELSE IF Same(obs', Peek) THEN k' = k + 1 /\ bad' = << >>
             ELSE /\ UNCHANGED k
                  /\ bad' = IF Peek.t \in {"handler", "raise"} /\ ~Peek.lib
                            THEN <<"ForeignException", <<Peek.t, Peek.cls>> >>
                            ELSE <<"WrongOutput", <<sp, obs'.ev, obs'.cls, Len(obs'.raw), Peek.t, Peek.cls, Len(Peek.raw)>> >>

Verdict ==
  /\ ti <= Len(Traces)
  /\ (bad # << >> \/ (k > Len(Tr.ob) /\ pc = "idle"))
  /\ PrintT(<<"OVERDICT", Tr.tid, IF bad = << >> THEN "accept" ELSE "reject",
              IF bad = << >> THEN "ConformsInOutputs" ELSE bad[1], k, IF bad = << >> THEN << >> ELSE bad[2]>>)
  /\ ti' = ti + 1 /\ k' = 1 /\ sp' = 0 /\ bad' = << >>
  /\ IF ti + 1 <= Len(Traces) THEN Load(Traces[ti + 1])
     ELSE UNCHANGED fvars

TInit ==
  /\ ti = 1 /\ k = 1 /\ sp = 0 /\ bad = << >>
  /\ IF Len(Traces) >= 1 THEN FInit(Traces[1].validate, Traces[1].parsed, Traces[1].quit) ELSE FInit(1, TRUE, 1)

TNext == Advance \/ Verdict
TSpec == TInit /\ [][TNext]_vars
=============================================================================
