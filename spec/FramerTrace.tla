---------------------------- MODULE FramerTrace ----------------------------
(***************************************************************************)
(* Trace validation of recorded executions of the REAL RTCMReader against  *)
(* Framer.tla.  A trace = reader options + one event per linearisation     *)
(* point: the client's call, and every call the reader made on the         *)
(* underlying stream (request size, bytes answered) together with what     *)
(* followed it before the next request (nothing / error-handler call /     *)
(* raise / return of a frame / return of (None, None)).                    *)
(*                                                                         *)
(* Every event must be a step the specification allows in the current      *)
(* state: the request must be the one the spec would make (size!), and     *)
(* the follow-up must be the one the spec prescribes.  The decoder outcome *)
(* for a complete frame is taken from the event (the payloads go to        *)
(* DecodeJudge separately), but CRC-24Q of every frame is recomputed here. *)
(* The verdict function is total: <<"FVERDICT", tid, verdict, clause, pos>>*)
(***************************************************************************)
EXTENDS Framer, Json, IOUtils

Traces == TLCEval(JsonDeserialize(IOEnv.VERIF_TRACES))

VARIABLES ti,        \* index of the trace being validated
          k,         \* index of the next event of that trace
          bad        \* << >> or <<clause, detail>>
tvars == <<ti, k, bad>>
vars == <<fvars, tvars>>

Tr == Traces[ti]
Ev == Tr.ev[k]

\* (the decoder has two error classes; any other class after a complete, CRC-accepted frame is
\* answered with the specification's own and the follow-up then does not match)
DecoderErrors == {"RTCMTypeError", "RTCMMessageError"}
OutcomeOfEv(e) ==
  IF e.then = "ret" THEN [k |-> e.pk, cls |-> ""]
  ELSE IF e.then \in {"handler", "raise"} /\ e.cls \in DecoderErrors THEN [k |-> "err", cls |-> e.cls]
  ELSE \* nothing observable followed: in ignore mode that is what a decode error looks like
       \* (in the other modes the spec's follow-up will not match and the event is rejected)
       [k |-> "err", cls |-> "RTCMTypeError"]

\* does the spec's observation after the step equal the recorded follow-up?
Follows(o, e) ==
  /\ o.ev = (IF e.then = "none" THEN "none" ELSE e.then)
  /\ (o.ev \in {"handler", "raise"} => o.cls = e.cls \/ e.anycls)      \* anycls: a logged text, class not observable
  /\ (o.ev = "ret" => o.raw = e.raw /\ o.pk = e.pk)

Load(t) ==
  /\ pc' = "idle" /\ cur' = << >> /\ obs' = Obs0 /\ got' = << >>
  /\ validate' = t.validate /\ parsed' = t.parsed /\ quit' = t.quit

\* why an io event does not fit (evaluated only when no step matches)
WhyNot(e) ==
  IF pc = "idle" THEN <<"IoWhileIdle", <<e.op, e.n>> >>
  ELSE IF e.op # (IF pc = "nmea" THEN "readline" ELSE "read") THEN <<"WrongRequestKind", <<pc, e.op>> >>
  ELSE IF pc # "nmea" /\ e.n # Need THEN <<"WrongRequestSize", <<pc, Need, e.n>> >>
  ELSE IF pc # "nmea" /\ Len(e.data) > Need THEN <<"StreamAnsweredTooMuch", <<Need, Len(e.data)>> >>
  ELSE IF e.then \in {"handler", "raise"} /\ ~e.lib THEN <<"ForeignException", <<pc, e.cls>> >>
  ELSE IF e.then = "ret" /\ (parsed # (e.pk # "none")) THEN <<"ParsedObjectMismatch", <<parsed, e.pk>> >>
  ELSE <<"WrongFollowUp", <<pc, e.then, e.cls, Len(e.raw)>> >>

Consume ==
  /\ ti <= Len(Traces) /\ bad = << >> /\ k <= Len(Tr.ev)
  /\ LET e == Ev IN
     IF e.op = "call"
     THEN IF pc = "idle" THEN CallRead /\ k' = k + 1 /\ UNCHANGED <<ti, bad>>
          ELSE bad' = <<"CallWhileBusy", <<pc>> >> /\ UNCHANGED <<fvars, ti, k>>
     ELSE IF e.op = "read" /\ e.n = 0 /\ e.then = "raise" /\ Tr.hraise /\ obs.ev = "handler" /\ pc = "b1"
     THEN \* the user's handler raised: its exception leaves read() (the handler had been called once)
          HandlerRaises /\ k' = k + 1 /\ UNCHANGED <<ti, bad>>
     ELSE IF e.op = "read" /\ e.n = 0 /\ e.then = "none" /\ e.data = << >> /\ pc \in {"pay", "crc"}
     THEN \* a zero-size request (zero-length frame) is neither a read nor an end of data
          k' = k + 1 /\ UNCHANGED <<fvars, ti, bad>>
     ELSE IF /\ pc # "idle"
             /\ e.op = (IF pc = "nmea" THEN "readline" ELSE "read")
             /\ (pc # "nmea" => e.n = Need /\ Len(e.data) <= Need)
             /\ (e.then \in {"handler", "raise"} => e.lib)
             /\ (e.then = "ret" => (parsed <=> e.pk # "none"))      \* an object iff parsing is on
     THEN /\ Step(e.data, OutcomeOfEv(e))
          /\ (pc = "crc" /\ Len(e.data) = 3 => PrintT(<<"FRAME", Tr.tid, k, cur \o e.data, e.then>>))
          /\ IF Follows(obs', e) THEN bad' = << >> ELSE bad' = <<"WrongFollowUp", <<pc, e.then, e.cls, obs'.ev, obs'.cls>> >>
          /\ k' = k + 1 /\ UNCHANGED ti
     ELSE bad' = WhyNot(e) /\ UNCHANGED <<fvars, ti, k>>

Verdict ==
  /\ ti <= Len(Traces)
  /\ (bad # << >> \/ k > Len(Tr.ev))
  /\ PrintT(<<"FVERDICT", Tr.tid, IF bad = << >> THEN "accept" ELSE "reject",
              IF bad = << >> THEN "Conforms" ELSE bad[1], k, IF bad = << >> THEN << >> ELSE bad[2]>>)
  /\ ti' = ti + 1 /\ k' = 1 /\ bad' = << >>
  /\ IF ti + 1 <= Len(Traces) THEN Load(Traces[ti + 1])
     ELSE UNCHANGED fvars

TInit ==
  /\ ti = 1 /\ k = 1 /\ bad = << >>
  /\ IF Len(Traces) >= 1 THEN FInit(Traces[1].validate, Traces[1].parsed, Traces[1].quit) ELSE FInit(1, TRUE, 1)

TNext == Consume \/ Verdict
TSpec == TInit /\ [][TNext]_vars
=============================================================================
