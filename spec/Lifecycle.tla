----------------------------- MODULE Lifecycle -----------------------------
(***************************************************************************)
(* Life-cycle of a message object (C14): mutable while it is being         *)
(* constructed, frozen from the moment the constructor returns - for       *)
(* messages with a definition, for stubs, whatever the attribute name.     *)
(* A failed construction never yields an object.                           *)
(*                                                                         *)
(*   phase     "none" | "building" | "frozen" | "failed"                   *)
(*   names     set of attribute names the object holds                     *)
(*   vals      name -> value                                               *)
(*   last      outcome of the last client operation                        *)
(***************************************************************************)
EXTENDS Integers, FiniteSets, TLC

CONSTANTS Names,      \* universe of attribute names (public, derived, private, fresh)
          Values      \* universe of values

VARIABLES phase, names, vals, last
lvars == <<phase, names, vals, last>>

Init == phase = "none" /\ names = {} /\ vals = << >> /\ last = "none"

\* constructor entered: private bookkeeping attributes are set first
BeginConstruct == /\ phase = "none"
                  /\ phase' = "building" /\ names' = {} /\ vals' = << >> /\ last' = "none"

\* decode step: the constructor itself may assign any attribute (Decode.tla says which)
BuildSet(n, v) == /\ phase = "building"
                  /\ names' = names \cup {n}
                  /\ vals' = (n :> v) @@ vals
                  /\ UNCHANGED <<phase, last>>

\* constructor returns (normal definition OR stub path): frozen from now on
Freeze == /\ phase = "building" /\ phase' = "frozen" /\ last' = "constructed"
          /\ UNCHANGED <<names, vals>>

\* decode failed: library error, no object escapes
FailConstruct == /\ phase = "building" /\ phase' = "failed" /\ last' = "raise:library"
                 /\ UNCHANGED <<names, vals>>

\* ANY assignment by a client, for EVERY name (existing, derived, private, new):
\* refused with the library's message error, nothing changes
SetAttr(n, v) == /\ phase = "frozen"
                 /\ last' = "raise:RTCMMessageError"
                 /\ UNCHANGED <<phase, names, vals>>

\* reads never change anything
Read(n) == /\ phase = "frozen" /\ last' = (IF n \in names THEN "value" ELSE "raise:AttributeError")
           /\ UNCHANGED <<phase, names, vals>>

Next == BeginConstruct \/ Freeze \/ FailConstruct
        \/ \E n \in Names, v \in Values : BuildSet(n, v) \/ SetAttr(n, v)
        \/ \E rn \in Names : Read(rn)
Spec == Init /\ [][Next]_lvars

\* C14 as an action property: once frozen, the object never changes
Frozen == [][phase = "frozen" => (names' = names /\ vals' = vals /\ phase' = "frozen")]_lvars
\* an assignment attempt is always answered by the message error
AssignRefused == [][(phase = "frozen" /\ last' \notin {"value", "raise:AttributeError"} /\ last' # last)
                      => last' = "raise:RTCMMessageError"]_lvars
NoObjectOnFailure == phase = "failed" => last = "raise:library"
TypeOK == phase \in {"none", "building", "frozen", "failed"} /\ names \subseteq Names
=============================================================================
