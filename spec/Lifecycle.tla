----------------------------- MODULE Lifecycle -----------------------------
(***************************************************************************)
(* Life-cycle of message objects (C14): an object is mutable while IT is    *)
(* being constructed, frozen from the moment ITS constructor returns - for  *)
(* messages with a definition, for stubs, whatever the attribute name, and  *)
(* whatever OTHER objects are doing (several objects, e.g. one per thread,  *)
(* are constructed and attacked in every interleaving).  A failed           *)
(* construction never yields an object.                                     *)
(*                                                                         *)
(*   phase[o]  "none" | "building" | "frozen" | "failed"                   *)
(*   names[o]  set of attribute names the object holds                     *)
(*   vals[o]   name -> value                                               *)
(*   last[o]   outcome of the last client operation on o                   *)
(***************************************************************************)
EXTENDS Integers, FiniteSets, TLC

CONSTANTS Names,      \* universe of attribute names (public, derived, private, fresh)
          Values,     \* universe of values
          Objs        \* object identities

VARIABLES phase, names, vals, last
lvars == <<phase, names, vals, last>>

Init == /\ phase = [o \in Objs |-> "none"] /\ names = [o \in Objs |-> {}]
        /\ vals = [o \in Objs |-> << >>] /\ last = [o \in Objs |-> "none"]

\* constructor entered
BeginConstruct(o) == /\ phase[o] = "none"
                     /\ phase' = [phase EXCEPT ![o] = "building"]
                     /\ UNCHANGED <<names, vals, last>>

\* decode step: the constructor itself may assign any attribute (Decode.tla says which)
BuildSet(o, n, v) == /\ phase[o] = "building"
                     /\ names' = [names EXCEPT ![o] = @ \cup {n}]
                     /\ vals' = [vals EXCEPT ![o] = (n :> v) @@ @]
                     /\ UNCHANGED <<phase, last>>

\* constructor returns (normal definition OR stub path): frozen from now on
Freeze(o) == /\ phase[o] = "building"
             /\ phase' = [phase EXCEPT ![o] = "frozen"] /\ last' = [last EXCEPT ![o] = "constructed"]
             /\ UNCHANGED <<names, vals>>

\* decode failed: library error, no object escapes
FailConstruct(o) == /\ phase[o] = "building"
                    /\ phase' = [phase EXCEPT ![o] = "failed"] /\ last' = [last EXCEPT ![o] = "raise:library"]
                    /\ UNCHANGED <<names, vals>>

\* ANY assignment by a client, for EVERY name (existing, derived, private, new), at ANY time
\* after o's own construction - also while another object is under construction:
\* refused with the library's message error, nothing changes
SetAttr(o, n, v) == /\ phase[o] = "frozen"
                    /\ last' = [last EXCEPT ![o] = "raise:RTCMMessageError"]
                    /\ UNCHANGED <<phase, names, vals>>

\* reads never change anything
Read(o, n) == /\ phase[o] = "frozen"
              /\ last' = [last EXCEPT ![o] = IF n \in names[o] THEN "value" ELSE "raise:AttributeError"]
              /\ UNCHANGED <<phase, names, vals>>

Next == \E o \in Objs :
          \/ BeginConstruct(o) \/ Freeze(o) \/ FailConstruct(o)
          \/ \E n \in Names, v \in Values : BuildSet(o, n, v) \/ SetAttr(o, n, v)
          \/ \E rn \in Names : Read(o, rn)
Spec == Init /\ [][Next]_lvars

\* C14 as an action property: once frozen, an object never changes - whatever the others do
Frozen == [][\A o \in Objs : phase[o] = "frozen" =>
               (names'[o] = names[o] /\ vals'[o] = vals[o] /\ phase'[o] = "frozen")]_lvars
\* an assignment attempt is always answered by the message error
AssignRefused == [][\A o \in Objs : (phase[o] = "frozen" /\ last'[o] \notin {"value", "raise:AttributeError"} /\ last'[o] # last[o])
                      => last'[o] = "raise:RTCMMessageError"]_lvars
\* the window that matters for a per-process (instead of per-object) freeze flag is reachable
AttackWhileOtherBuilds == \E o1, o2 \in Objs : o1 # o2 /\ phase[o1] = "frozen" /\ phase[o2] = "building"
NoObjectOnFailure == \A o \in Objs : phase[o] = "failed" => last[o] = "raise:library"
TypeOK == \A o \in Objs : phase[o] \in {"none", "building", "frozen", "failed"} /\ names[o] \subseteq Names
=============================================================================
