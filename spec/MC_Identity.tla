---------------------------- MODULE MC_Identity ----------------------------
(***************************************************************************)
(* Identity (C15), finite and exhaustive: all 4096 message numbers and all *)
(* 256 sub-types of 4076, with and without a definition.                   *)
(*   IdentityTotal  the identity text is defined for every header and is   *)
(*                  the decimal number (+ "_" three-digit sub-type)        *)
(*   Dispatch       a header leads to a definition iff its identity is a   *)
(*                  key of the table its RANGE selects; everything else is *)
(*                  a stub (never an error)                                *)
(*   MsmBlock       MsmSpec = "yes" for exactly the 49 implemented numbers,*)
(*                  "no" outside 1070..1229                                *)
(***************************************************************************)
EXTENDS Message, Json, IOUtils

Tables  == TLCEval(JsonDeserialize(IOEnv.VERIF_TABLES))
MFields == Tables.fields
MDefs   == Tables.defs
MTable  == Tables.table

VARIABLES m, sub
ivars == <<m, sub>>

Hdr3(mm, ss) == << mm \div 16, (mm % 16) * 16 + (ss \div 128), (ss % 128) * 2 >>

IInit == /\ m \in 0 .. 4095 /\ sub \in (IF m = 4076 THEN 0 .. 255 ELSE {0})
         /\ Load(Hdr3(m, sub))
INext == UNCHANGED <<ivars, dvars>>
ISpec == IInit /\ [][INext]_<<ivars, dvars>>

Q == Hdr3(m, sub)
IdentityTotal ==
  /\ MidOf(Q) = m
  /\ (m = 4076 => SubtypeOf(Q) = sub /\ IdentOf(Q) = "4076_" \o Pad3(sub))
  /\ (m # 4076 => IdentOf(Q) = ToString(m))
Dispatch ==
  /\ RangeTable(m) \in {"get", "msm", "igs"}
  /\ (HasDef(IdentOf(Q), m) => IdentOf(Q) \in DOMAIN MDefs)
MsmBlock ==
  /\ (MsmSpec(m) = "yes" => m \in 1070 .. 1229)
  /\ (m \notin 1070 .. 1229 => MsmSpec(m) = "no")
MsmCount == Cardinality({x \in 0 .. 4095 : MsmSpec(x) = "yes"}) = 49
\* every implemented MSM number has a definition in the exported tables
MsmImplemented == MsmSpec(m) = "yes" => HasDef(ToString(m), m)
=============================================================================
