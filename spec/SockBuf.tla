------------------------------ MODULE SockBuf ------------------------------
(***************************************************************************)
(* SocketWrapper: a buffer refilled by recv() results whose sizes the      *)
(* NETWORK chooses, with an optional HTTP chunk decoder carrying an         *)
(* undecoded tail between receives.                                        *)
(*                                                                         *)
(*   net      bytes the peer has sent and the wrapper has not received     *)
(*   closed   the peer has closed (recv returns b"" once net is drained)   *)
(*   buffer   decoded bytes not yet handed to the client                   *)
(*   partial  undecoded tail of the chunked stream                         *)
(*   call     pending client call: [op |-> "none"|"init"|"read"|"readline",*)
(*            n, line, failed]                                             *)
(*   last     result of the last completed call (observable)               *)
(*   rcvd, delivered   ghost: everything received / handed out so far      *)
(*                                                                         *)
(* Actions: Construct (the constructor performs one initial receive),      *)
(* CallRead(n), CallReadline, Recv(k) (k = the network's segmentation      *)
(* choice, 1..Min(bufsize, Len(net))), RecvFail (timeout / OS error inside *)
(* recv: buffer and partial UNCHANGED), RecvClosed, RetRead, LineStep,     *)
(* RetReadline.                                                            *)
(***************************************************************************)
EXTENDS Integers, Sequences, TLC

CONSTANTS Chunked,          \* BOOLEAN: chunked transfer encoding enabled
          BufSize,          \* recv buffer size
          Inflate(_)        \* per-chunk decompression (identity without compression)

VARIABLES net, closed, buffer, partial, call, last, rcvd, delivered
svars == <<net, closed, buffer, partial, call, last, rcvd, delivered>>

D == INSTANCE Dechunk

NoCall == [op |-> "none", n |-> 0, line |-> << >>, failed |-> FALSE]
Min(a, b) == IF a < b THEN a ELSE b

SInit(src) ==
  /\ net = src /\ closed = FALSE
  /\ buffer = << >> /\ partial = << >>
  /\ call = [NoCall EXCEPT !.op = "init"]
  /\ last = [op |-> "none", data |-> << >>, n |-> 0, failed |-> FALSE]
  /\ rcvd = << >> /\ delivered = << >>

\* what a successful receive of segment seg does to buffer / partial
Absorb(seg) ==
  IF Chunked
  THEN LET r == D!Dechunk(partial \o seg)
       IN  buffer' = buffer \o r.chunks /\ partial' = r.partial
  ELSE buffer' = buffer \o seg /\ UNCHANGED partial

\* the wrapper needs more data for the pending call
Wants ==
  \/ call.op = "init"
  \/ call.op = "read" /\ ~call.failed /\ Len(buffer) < call.n
  \/ call.op = "readline" /\ ~call.failed /\ Len(buffer) < 1

AfterRecv(ok) ==
  IF call.op = "init" THEN call' = NoCall
  ELSE call' = [call EXCEPT !.failed = ~ok]

\* a successful receive of the (non-empty) segment seg
RecvSeg(seg) ==
  /\ Wants /\ seg # << >>
  /\ Absorb(seg)
  /\ rcvd' = rcvd \o seg
  /\ AfterRecv(TRUE)
  /\ UNCHANGED <<closed, last, delivered>>

\* the network hands over the next k bytes
Recv(k) ==
  /\ k \in 1 .. Min(BufSize, Len(net))
  /\ RecvSeg(SubSeq(net, 1, k))
  /\ net' = SubSeq(net, k + 1, Len(net))

\* timeout or OS error inside recv(): nothing buffered is lost
RecvFail ==
  /\ Wants
  /\ AfterRecv(FALSE)
  /\ UNCHANGED <<net, closed, buffer, partial, last, rcvd, delivered>>

\* peer closed: recv() returns b""
RecvClosed ==
  /\ Wants /\ net = << >>
  /\ closed' = TRUE
  /\ AfterRecv(FALSE)
  /\ UNCHANGED <<net, buffer, partial, last, rcvd, delivered>>

CallRead(n) ==
  /\ call.op = "none"
  /\ call' = [NoCall EXCEPT !.op = "read", !.n = n]
  /\ UNCHANGED <<net, closed, buffer, partial, last, rcvd, delivered>>

\* exactly n bytes, or nothing at all if a receive failed during this call
RetRead ==
  /\ call.op = "read"
  /\ call.failed \/ Len(buffer) >= call.n
  /\ LET data == IF Len(buffer) >= call.n /\ ~call.failed THEN SubSeq(buffer, 1, call.n) ELSE << >> IN
     /\ last' = [op |-> "read", data |-> data, n |-> call.n, failed |-> call.failed]
     /\ buffer' = SubSeq(buffer, Len(data) + 1, Len(buffer))
     /\ delivered' = delivered \o data
  /\ call' = NoCall
  /\ UNCHANGED <<net, closed, partial, rcvd>>

CallReadline ==
  /\ call.op = "none"
  /\ call' = [NoCall EXCEPT !.op = "readline", !.n = 1]
  /\ UNCHANGED <<net, closed, buffer, partial, last, rcvd, delivered>>

\* readline = repeated read(1) until CRLF or a failed receive
LineStep ==
  /\ call.op = "readline" /\ ~call.failed /\ Len(buffer) >= 1
  /\ LET l2 == Append(call.line, buffer[1]) IN
     /\ buffer' = Tail(buffer)
     /\ delivered' = Append(delivered, buffer[1])
     /\ IF Len(l2) >= 2 /\ l2[Len(l2) - 1] = 13 /\ l2[Len(l2)] = 10
        THEN call' = NoCall /\ last' = [op |-> "readline", data |-> l2, n |-> 0, failed |-> FALSE]
        ELSE call' = [call EXCEPT !.line = l2] /\ UNCHANGED last
  /\ UNCHANGED <<net, closed, partial, rcvd>>

RetReadlineFail ==
  /\ call.op = "readline" /\ call.failed
  /\ last' = [op |-> "readline", data |-> call.line, n |-> 0, failed |-> TRUE]
  /\ call' = NoCall
  /\ UNCHANGED <<net, closed, buffer, partial, rcvd, delivered>>

---------------------------------------------------------------------------
IsPrefix(a, b) == Len(a) <= Len(b) /\ SubSeq(b, 1, Len(a)) = a

\* decoded form of everything received so far
DecodedComplete(bytes) == IF Chunked THEN D!Ref(bytes).outc ELSE bytes

\* C11 / C12: nothing lost, duplicated or reordered - what has been handed out plus
\* what is buffered is a prefix of the decoded source, and contains every complete chunk
PrefixOK ==
  /\ IsPrefix(delivered \o buffer, DecodedComplete(rcvd))
  /\ IsPrefix(DecodedComplete(rcvd), delivered \o buffer)
\* (for plain streams both lines say: delivered \o buffer = rcvd)

\* C11: a read returns exactly the requested number of bytes or nothing
SizeOK ==
  /\ (last.op = "read" => (Len(last.data) = last.n \/ (last.data = << >> /\ last.failed)))
  /\ (last.op = "readline" /\ ~last.failed =>
        Len(last.data) >= 2 /\ last.data[Len(last.data) - 1] = 13 /\ last.data[Len(last.data)] = 10)
\* C11: a timeout loses no buffered data
TimeoutKeepsData == [][(call'.failed /\ ~call.failed) => (buffer' = buffer /\ partial' = partial)]_svars
\* C12: the undecoded tail is a suffix of what has been received
TailIsSuffix == Chunked => (Len(partial) <= Len(rcvd) /\ SubSeq(rcvd, Len(rcvd) - Len(partial) + 1, Len(rcvd)) = partial)
=============================================================================
