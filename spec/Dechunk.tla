------------------------------ MODULE Dechunk ------------------------------
(***************************************************************************)
(* HTTP/1.1 chunked transfer decoding, twice.                              *)
(*                                                                         *)
(* Dechunk(seg)  - in the SHAPE OF THE CODE (SocketWrapper.dechunk): a     *)
(*   segment (undecoded tail of earlier receives + new bytes) is read      *)
(*   line-wise: size line (CRLF-terminated, hex), chunk data, terminating  *)
(*   CRLF; returns the decoded bytes of the COMPLETE chunks and the        *)
(*   undecoded tail to be prepended to the next segment.  Specified        *)
(*   (repaired) behaviour: a chunk is complete only when its terminating   *)
(*   CRLF is in the segment; otherwise everything from its size line on    *)
(*   is kept as tail.  A zero chunk ends decoding.                         *)
(*                                                                         *)
(* Ref(bytes)    - pinned oracle: the RFC 9112 section 7.1 grammar as a    *)
(*   byte-at-a-time decoder (states size, size_cr, data, data_cr, data_lf, *)
(*   done), independent of any segmentation by construction.               *)
(*                                                                         *)
(* Inflate(_) is the per-chunk decompression: the identity for plain       *)
(* chunked encoding, a dictionary supplied by the harness (computed with   *)
(* zlib) for gzip / deflate / compress.                                    *)
(***************************************************************************)
EXTENDS Integers, Sequences

CONSTANT Inflate(_)

HexDigit(b) == (b \in 48 .. 57) \/ (b \in 97 .. 102) \/ (b \in 65 .. 70)
HexOf(b) == IF b \in 48 .. 57 THEN b - 48 ELSE IF b \in 97 .. 102 THEN b - 87 ELSE b - 55

RECURSIVE HexValFrom(_, _, _)
HexValFrom(s, i, acc) == IF i > Len(s) THEN acc ELSE HexValFrom(s, i + 1, 16 * acc + HexOf(s[i]))
IsHex(s) == s # << >> /\ \A i \in 1 .. Len(s) : HexDigit(s[i])
HexVal(s) == HexValFrom(s, 1, 0)

\* index of the first LF at or after i; 0 if none
RECURSIVE FirstLF(_, _)
FirstLF(s, i) == IF i > Len(s) THEN 0 ELSE IF s[i] = 10 THEN i ELSE FirstLF(s, i + 1)

\* ---- code-shaped -----------------------------------------------------------
RECURSIVE DechunkFrom(_, _, _)
DechunkFrom(seg, i, acc) ==
  LET lf == FirstLF(seg, i) IN
  IF lf = 0 \/ lf < i + 1 \/ seg[lf - 1] # 13
  THEN \* premature end of the size line: keep it
       [chunks |-> acc, partial |-> SubSeq(seg, i, IF lf = 0 THEN Len(seg) ELSE lf)]
  ELSE LET line == SubSeq(seg, i, lf - 2) IN
       IF ~IsHex(line)
       THEN [chunks |-> acc, partial |-> << >>]                 \* residual bytes: dropped
       ELSE LET size == HexVal(line) IN
            IF size = 0
            THEN [chunks |-> acc, partial |-> << >>]            \* final chunk: decoding ends
            ELSE IF lf + size + 2 > Len(seg)
                 THEN \* data or its terminating CRLF not complete: keep from the size line on
                      [chunks |-> acc, partial |-> SubSeq(seg, i, Len(seg))]
                 ELSE DechunkFrom(seg, lf + size + 3, acc \o Inflate(SubSeq(seg, lf + 1, lf + size)))
Dechunk(seg) == DechunkFrom(seg, 1, << >>)

\* ---- grammar-shaped reference ----------------------------------------------
\* state [m, n, sz, cur, outc, outd, outa]:  m mode, n data bytes left, sz size accumulator,
\* cur data of the chunk in progress;
\* outc decoded bytes of the chunks whose terminating CRLF has been seen,
\* outd decoded bytes of the chunks whose DATA is complete (CRLF maybe still to come),
\* outa every data byte seen so far, undecoded (meaningful without compression)
R0 == [m |-> "size", n |-> 0, sz |-> 0, cur |-> << >>, outc |-> << >>, outd |-> << >>, outa |-> << >>]
RStep(r, b) ==
  CASE r.m = "size" ->
         IF HexDigit(b) THEN [r EXCEPT !.sz = 16 * @ + HexOf(b)]
         ELSE IF b = 13 THEN [r EXCEPT !.m = "size_cr"] ELSE [r EXCEPT !.m = "bad"]
    [] r.m = "size_cr" ->
         IF b = 10 THEN (IF r.sz = 0 THEN [r EXCEPT !.m = "done"] ELSE [r EXCEPT !.m = "data", !.n = r.sz, !.sz = 0, !.cur = << >>])
         ELSE [r EXCEPT !.m = "bad"]
    [] r.m = "data" ->
         [r EXCEPT !.cur = Append(@, b), !.n = @ - 1, !.m = IF r.n = 1 THEN "data_cr" ELSE "data",
                   !.outa = Append(@, b),
                   !.outd = IF r.n = 1 THEN @ \o Inflate(Append(r.cur, b)) ELSE @]
    [] r.m = "data_cr" -> IF b = 13 THEN [r EXCEPT !.m = "data_lf"] ELSE [r EXCEPT !.m = "bad"]
    [] r.m = "data_lf" ->
         IF b = 10 THEN [r EXCEPT !.m = "size", !.outc = @ \o Inflate(r.cur), !.cur = << >>] ELSE [r EXCEPT !.m = "bad"]
    [] OTHER -> r                     \* done / bad: absorbing

RECURSIVE RefFrom(_, _, _)
RefFrom(s, i, r) == IF i > Len(s) THEN r ELSE RefFrom(s, i + 1, RStep(r, s[i]))
Ref(s) == RefFrom(s, 1, R0)
=============================================================================
