----------------------------- MODULE MC_Framer -----------------------------
(***************************************************************************)
(* Environments for model checking Framer.tla.                             *)
(*                                                                         *)
(* EnvMode = "bytes": the adversary. Every pending request is answered     *)
(*   lazily with ANY number k <= need of bytes over the alphabet A (k = 0  *)
(*   end of data / timeout, k < need short read), the CRC request          *)
(*   additionally with the correct CRC of the frame in progress (adaptive  *)
(*   play: every play is one concrete finite stream, so universal          *)
(*   properties transfer).  The stream is finite: `budget` bytes are left. *)
(*   After end of data the client stops calling (iterator protocol).       *)
(*                                                                         *)
(* EnvMode = "items": a well-behaved source. Whole items are appended      *)
(*   atomically - valid frame (payload 0..MaxPay bytes, known / unknown    *)
(*   numbers, the zero-length frame), NMEA sentence, UBX frame whose       *)
(*   payload contains sync bytes, inert noise, optionally a DAMAGED frame  *)
(*   (payload or CRC altered, header intact) - and every request is        *)
(*   answered in full.  `expect` is what the item in flight owes the       *)
(*   client: C02 NoLoss and C05 DamageCostsOneFrame are invariants on it.  *)
(***************************************************************************)
EXTENDS Framer

CONSTANTS EnvMode, A, MaxPay, Budget, MaxItems, DefinedMids, Damage, OptSet, HRaise

VARIABLES budget,    \* bytes (bytes mode) / items (items mode) the source may still produce
          eof,       \* the client has seen end of data
          avail,     \* items mode: produced and not yet consumed
          expect,    \* items mode: "none" | "frame" | "report"  owed for the item in flight
          want       \* items mode: the frame that must be delivered
evars == <<budget, eof, avail, expect, want>>
vars == <<fvars, evars>>

\* decoder outcome for tiny payloads (the seam to Decode.tla; Layout checks that
\* no definition fits in <= 3 bytes)
TinyOutcome(pl) ==
  IF Len(pl) < 2 THEN [k |-> "err", cls |-> "RTCMTypeError"]
  ELSE IF (pl[1] * 16 + pl[2] \div 16) \in DefinedMids THEN [k |-> "err", cls |-> "RTCMTypeError"]
  ELSE [k |-> "stub", cls |-> ""]
OutcomeOf(raw) == TinyOutcome(SubSeq(raw, 4, Len(raw) - 3))

OptAll == {<<v, pa, q>> : v \in {0, 1, 2, 3}, pa \in BOOLEAN, q \in {0, 1, 2}}
OptCore == {<<1, TRUE, 0>>, <<1, TRUE, 1>>, <<1, TRUE, 2>>, <<0, TRUE, 1>>, <<1, FALSE, 1>>, <<0, FALSE, 2>>}

Seqs(S, n) == UNION {[1 .. k -> S] : k \in n .. n}

FrameOf(pl) == LET h == <<211, Len(pl) \div 256, Len(pl) % 256>> \o pl IN h \o CrcBytes(h)

Init ==
  /\ \E o \in OptSet : FInit(o[1], o[2], o[3])
  /\ budget = Budget /\ eof = FALSE
  /\ avail = << >> /\ expect = "none" /\ want = << >>

Call == /\ ~eof /\ CallRead /\ UNCHANGED evars

\* ---------------------------------------------------------------- bytes mode
Filler(n) == [i \in 1 .. n |-> 0]
Answers ==
  IF pc = "nmea"
  THEN {<<>>} \cup {s \in UNION {Seqs({71, 10}, k) : k \in 1 .. 2} : Len(s) <= budget}
  ELSE LET n == Need
           small == n <= 2
           full == IF n > budget THEN {}
                   ELSE IF pc = "crc" THEN {CrcBytes(cur), <<0, 0, 1>>}
                   ELSE IF small THEN Seqs(A, n)
                   ELSE {Filler(n)}
           short == {Filler(k) : k \in {j \in {1, n - 1} : j > 0 /\ j < n /\ j <= budget}}
       IN  {<<>>} \cup full \cup short

AnswerBytes ==
  /\ EnvMode = "bytes" /\ pc # "idle"
  /\ \E ans \in Answers :
       /\ Step(ans, IF pc = "crc" /\ Len(ans) = 3 THEN OutcomeOf(cur \o ans) ELSE [k |-> "stub", cls |-> ""])
       /\ budget' = budget - Len(ans)
       /\ eof' = (eof \/ ans = <<>>)
  /\ UNCHANGED <<avail, expect, want>>

\* ---------------------------------------------------------------- items mode
Payloads == UNION {Seqs({0, 62, 208, 211}, k) : k \in 0 .. MaxPay}
GoodFrames == {FrameOf(pl) : pl \in Payloads}
Flip(f, i) == [f EXCEPT ![i] = IF @ = 0 THEN 1 ELSE 0]
Foreign == { <<36, 71, 88, 10>>,                       \* $GX\n
             <<181, 98, 1, 2, 2, 0, 211, 36, 9, 9>>,   \* UBX, payload holds sync bytes
             <<7, 8>> }                                \* inert noise

\* what a frame owes: a delivery if it carries a decodable number, else a report
Owes(f) ==
  IF ~parsed THEN "frame"
  ELSE IF OutcomeOf(f).k = "err" THEN "report" ELSE "frame"

Produce ==
  /\ EnvMode = "items" /\ pc = "b1" /\ avail = << >> /\ expect = "none" /\ budget > 0
  /\ budget' = budget - 1
  /\ \/ \E f \in GoodFrames : avail' = f /\ expect' = Owes(f) /\ want' = f
     \/ \E x \in Foreign : avail' = x /\ expect' = "none" /\ want' = << >>
     \/ /\ Damage
        /\ \E f \in GoodFrames : \E i \in 4 .. Len(f) :
             /\ avail' = Flip(f, i) /\ want' = << >>
             /\ expect' = IF parsed /\ validate % 2 = 1 THEN "report"
                          ELSE Owes(Flip(f, i))            \* validation or parsing off: CRC not looked at
             /\ (expect' = "frame" => want' = Flip(f, i))
  /\ UNCHANGED <<fvars, eof>>

Take ==
  IF pc = "nmea"
  THEN LET P == {i \in 1 .. Len(avail) : avail[i] = 10}
       IN  IF P = {} THEN avail ELSE SubSeq(avail, 1, CHOOSE i \in P : \A j \in P : i <= j)
  ELSE SubSeq(avail, 1, IF Need < Len(avail) THEN Need ELSE Len(avail))

AnswerItems ==
  /\ EnvMode = "items" /\ pc # "idle"
  /\ (avail # << >> \/ budget = 0)                        \* empty answer only at the real end
  /\ LET ans == Take IN
     /\ Step(ans, IF pc = "crc" /\ Len(ans) = 3 THEN OutcomeOf(cur \o ans) ELSE [k |-> "stub", cls |-> ""])
     /\ avail' = SubSeq(avail, Len(ans) + 1, Len(avail))
     /\ eof' = (eof \/ ans = <<>>)
     /\ expect' = IF obs'.ev = "ret" /\ expect = "frame" /\ obs'.raw = want THEN "none"
                  ELSE IF obs'.ev \in {"handler", "raise"} /\ expect = "report" THEN "none"
                  ELSE IF quit = 0 /\ expect = "report" /\ pc' = "b1" /\ avail' = << >> THEN "none"
                  ELSE IF obs'.ev \in {"ret", "handler", "raise"} THEN "VIOLATED"
                  ELSE expect
  /\ UNCHANGED <<budget, want>>

HandlerThrows == HRaise /\ HandlerRaises /\ UNCHANGED evars
Next == Call \/ AnswerBytes \/ Produce \/ AnswerItems \/ HandlerThrows
Spec == Init /\ [][Next]_vars /\ WF_vars(Next)

\* ---------------------------------------------------------------- properties
\* C04 termination: over a finite stream the iteration ends
Terminates == <>(eof /\ pc = "idle")

\* C02 / C05: an item's debt is settled exactly: the frame is delivered byte for
\* byte (no loss, no duplicate, nothing else delivered), a damaged or undecodable
\* frame is reported exactly once in log mode, raised in raise mode, silently
\* dropped in ignore mode - and costs only itself
DebtSettled == expect # "VIOLATED"
NoLoss == (EnvMode = "items" /\ pc = "b1" /\ avail = << >>) => expect = "none"
NoStarve == (EnvMode = "items" /\ eof) => (avail = << >> /\ budget = 0)
\* C05: after a raise the very next call starts at the next item
RaiseThenResume == (obs.ev \in {"raise", "hraise"}) => (pc = "idle" /\ cur = << >>)
=============================================================================
