------------------------------ MODULE MC_Frame ------------------------------
(***************************************************************************)
(* Framing (Message.tla: Header / Frame) model-checked on all payloads of  *)
(* up to MaxLen bytes over the symbol set Sym, plus constant-content       *)
(* payloads of the lengths in Long (the length field is the point there):  *)
(*   Preamble, LengthField (16 bits big-endian, six zero bits), PayloadIn, *)
(*   TrailerIsCrc, ZeroRemainder (CRC over the whole frame is 0),          *)
(*   ParseInverse (static parser's slice of the frame is the payload).     *)
(***************************************************************************)
EXTENDS Integers, Sequences, Crc24q, TLC
CONSTANTS Sym, MaxLen, Long

VARIABLE q
Header(x) == << 211, Len(x) \div 256, Len(x) % 256 >>
Frame(x)  == LET h == Header(x) \o x IN h \o CrcBytes(h)

Init == q = << >>
Grow == Len(q) < MaxLen /\ \E b \in Sym : q' = Append(q, b)
Jump == q = << >> /\ \E n \in Long : \E b \in Sym : q' = [i \in 1 .. n |-> b]
Next == Grow \/ Jump
Spec == Init /\ [][Next]_q

F == Frame(q)
Preamble     == F[1] = 211
LengthField  == /\ F[2] * 256 + F[3] = Len(q)
                /\ (Len(q) <= 1023 => F[2] < 4)
PayloadIn    == SubSeq(F, 4, Len(F) - 3) = q
FrameLen     == Len(F) = Len(q) + 6
TrailerIsCrc == SubSeq(F, Len(F) - 2, Len(F)) = CrcBytes(SubSeq(F, 1, Len(F) - 3))
ZeroRemainder == Crc(F) = 0
=============================================================================
