------------------------------- MODULE MC_Crc -------------------------------
(***************************************************************************)
(* Model checking of the CRC-24Q algebra that C08 (and C01/C05) rely on.   *)
(*                                                                         *)
(*  Mode "alg":  all message pairs (a, b) of equal length over the symbol  *)
(*     set Sym, length <= MaxLen:                                          *)
(*       ZeroRemainder   Crc(a \o CrcBytes(a)) = 0                         *)
(*       Linear          Crc(a (+) b) = Crc(a) ^^ Crc(b)                   *)
(*       TableIsBitwise  Crc(a) = CrcSlow(a)                               *)
(*  Mode "lfsr": the single behaviour  reg = x^d mod Poly,  d = 0..MaxD:   *)
(*       NonZero         x^d mod Poly # 0     (every 1-bit error detected) *)
(*       NoShortPeriod   x^d mod Poly # 1 for 1 <= d   (every 2-bit error  *)
(*                       at distance d <= MaxD detected, MaxD >= 8232 =    *)
(*                       the longest frame in bits)                        *)
(*     and the table X[d] is printed for the single-bit conformance test.  *)
(*  Constant-level facts (ASSUME): Poly has degree 24, constant term 1     *)
(*     (=> every burst of length <= 24 is detected: g | x^i B(x) with      *)
(*     deg B < 24, B # 0 is impossible since gcd(x^i, g) = 1), and even    *)
(*     weight (=> factor (x+1) => every odd-weight error is detected);     *)
(*     ByteT = ByteBitwise on all 256 bytes x sampled registers.           *)
(***************************************************************************)
EXTENDS Crc24q, TLC

CONSTANTS Mode, Sym, MaxLen, MaxD

VARIABLES a, b, reg, d
cvars == <<a, b, reg, d>>

ASSUME PolyShape == /\ Poly \div Two24 = 1            \* degree exactly 24
                    /\ Poly % 2 = 1                 \* constant term 1
                    /\ Weight(Poly) % 2 = 0         \* divisible by (x+1)

SampleRegs == {0, 1, 2, 255, 256, 65535, 65536, 8388608, 8801531, 11184810, 5592405, Mask}
ASSUME TableIsBitwiseOnBytes ==
  \A x \in 0 .. 255 : \A c \in SampleRegs : ByteT(c, x) = ByteBitwise(c, x)

XorSeq(s, t) == [i \in 1 .. Len(s) |-> s[i] ^^ t[i]]

Init ==
  /\ a = << >> /\ b = << >>
  /\ reg = 1 /\ d = 0

NextAlg ==
  /\ Mode = "alg" /\ Len(a) < MaxLen
  /\ \E x \in Sym, y \in Sym : a' = Append(a, x) /\ b' = Append(b, y)
  /\ UNCHANGED <<reg, d>>

NextLfsr ==
  /\ Mode = "lfsr" /\ d < MaxD
  /\ reg' = Shift1(reg) /\ d' = d + 1
  /\ PrintT(<<"XD", d', reg'>>)
  /\ UNCHANGED <<a, b>>

Next == NextAlg \/ NextLfsr
Spec == Init /\ [][Next]_cvars

ZeroRemainder == Crc(a \o CrcBytes(a)) = 0
Linear == Crc(XorSeq(a, b)) = (Crc(a) ^^ Crc(b))
TableIsBitwise == Crc(a) = CrcSlow(a)
Range == Crc(a) \in 0 .. Mask
NonZero == reg # 0
NoShortPeriod == d >= 1 => reg # 1
=============================================================================
