------------------------------- MODULE Bits -------------------------------
(***************************************************************************)
(* Bit-level arithmetic on byte and bit sequences, written so that values  *)
(* wider than TLC's 32-bit integers (38-bit ECEF coordinates, 64-bit       *)
(* satellite masks, 2048-bit cell masks) never become TLC integers: a      *)
(* field value is a sign (0/1) and a magnitude given as its binary         *)
(* expansion, most significant bit first, without leading zeros.           *)
(***************************************************************************)
EXTENDS Integers, Sequences, FiniteSets

Pow2T == <<1, 2, 4, 8, 16, 32, 64, 128>>          \* Pow2T[k+1] = 2^k, k in 0..7

\* bit i (1-based, MSB first) of byte sequence p
BitAt(p, i) == (p[((i - 1) \div 8) + 1] \div Pow2T[8 - ((i - 1) % 8)]) % 2

\* the bits of a byte sequence, MSB first
BitsOf(p) == [i \in 1 .. 8 * Len(p) |-> BitAt(p, i)]

\* positions (1-based) of the set bits of a bit sequence, ascending, as a sequence
RECURSIVE SetPosFrom(_, _)
SetPosFrom(b, i) ==
  IF i > Len(b) THEN << >>
  ELSE IF b[i] = 1 THEN << i >> \o SetPosFrom(b, i + 1)
       ELSE SetPosFrom(b, i + 1)
SetPositions(b) == SetPosFrom(b, 1)

PopCount(b) == Cardinality({i \in 1 .. Len(b) : b[i] = 1})

\* strip leading zero bits (canonical magnitude)
RECURSIVE FirstOne(_, _)
FirstOne(b, i) == IF i > Len(b) THEN 0 ELSE IF b[i] = 1 THEN i ELSE FirstOne(b, i + 1)
Strip(b) == LET f == FirstOne(b, 1) IN IF f = 0 THEN << >> ELSE SubSeq(b, f, Len(b))

\* index of the last set bit, 0 if none
RECURSIVE LastOne(_, _)
LastOne(b, i) == IF i < 1 THEN 0 ELSE IF b[i] = 1 THEN i ELSE LastOne(b, i - 1)

\* magnitude of the two's-complement negation of b (b # 0): keep the trailing
\* "1 0...0", invert everything to the left of it
Negate(b) == LET r == LastOne(b, Len(b))
             IN [i \in 1 .. Len(b) |-> IF i < r THEN 1 - b[i] ELSE b[i]]

\* integer value of a short bit sequence (callers guarantee Len(b) <= 24)
RECURSIVE ToIntAcc(_, _, _)
ToIntAcc(b, i, acc) == IF i > Len(b) THEN acc ELSE ToIntAcc(b, i + 1, 2 * acc + b[i])
ToInt(b) == ToIntAcc(b, 1, 0)

\* value of a field: [s |-> sign, m |-> canonical magnitude]
UnsignedVal(b) == [s |-> 0, m |-> Strip(b)]

TwosVal(b) ==            \* Len(b) >= 1
  IF b[1] = 0 THEN [s |-> 0, m |-> Strip(b)]
  ELSE [s |-> 1, m |-> Strip(Negate(b))]

SignMagVal(b) ==         \* Len(b) >= 1; "minus zero" is zero
  LET mag == Strip(Tail(b))
  IN  [s |-> IF mag = << >> THEN 0 ELSE b[1], m |-> mag]
=============================================================================
