"""
./check <Cxx> [--tier quick|thorough] [--replay FILE]

Exit 0: property held on everything explored (KNOWN-FINDING lines possible)
Exit 1: VIOLATION property=<id> replay=<path>
Exit 2: machinery failure (never a violation)
"""

import argparse
import importlib
import json
import os
import sys
import traceback

from . import common
from .common import MachineryFailure, Reporter


def main():
    ap = argparse.ArgumentParser()
    ap.add_argument("prop")
    ap.add_argument("--tier", default=os.environ.get("VERIF_TIER", "quick"), choices=["quick", "thorough"])
    ap.add_argument("--replay", default=None)
    a = ap.parse_args()
    prop = a.prop.upper()
    try:
        mod = importlib.import_module(f"harness.props.{prop.lower()}")
    except ModuleNotFoundError:
        print(f"unknown property {prop}", file=sys.stderr)
        return 2
    rep = Reporter(prop, a.tier)
    try:
        if a.replay:
            with open(a.replay, encoding="utf-8") as f:
                rp = json.load(f)
            if not hasattr(mod, "replay"):
                print("no replay support for this property", file=sys.stderr)
                return 2
            return mod.replay(rp, rep)
        mod.run(a.tier, rep)
        return rep.finish(**getattr(mod, "FINISH", {}))
    except MachineryFailure as err:
        print(f"MACHINERY-FAILURE [{prop}]: {err}", file=sys.stderr)
        return 2
    except Exception as err:  # pylint: disable=broad-except
        # An exception that was RAISED INSIDE the library under test and is not one of the library's own
        # classes, escaping through a public call into a scenario of the harness, is a failure of the
        # code, not of the machinery: no listed scenario allows it (the unchanged tree never does it -
        # there it would be exit 2 anyway).  Everything else is a machinery failure.
        traceback.print_exc()
        try:
            import pyrtcm

            libdir = os.path.dirname(os.path.abspath(pyrtcm.__file__))
            from .decode_rec import lib_classes

            tb = traceback.extract_tb(err.__traceback__)
            inlib = bool(tb) and os.path.abspath(tb[-1].filename).startswith(libdir)
            if inlib and not isinstance(err, lib_classes()):
                where = f"{os.path.basename(tb[-1].filename)}:{tb[-1].lineno}"
                rep.reject("LibraryRaisedInScenario", {"engine": "harness", "exception": type(err).__name__},
                           {"exception": type(err).__name__, "message": str(err)[:300], "raised_at": where,
                            "called_from": next((f"{os.path.basename(f.filename)}:{f.lineno}" for f in reversed(tb) if "/harness/" in f.filename), "")})
                return rep.finish(**getattr(mod, "FINISH", {}))
        except Exception:  # pylint: disable=broad-except
            traceback.print_exc()
        print(f"MACHINERY-FAILURE [{prop}]: unexpected exception in the harness", file=sys.stderr)
        return 2


if __name__ == "__main__":
    sys.exit(main())
