"""
./check <Cxx> [--tier quick|thorough] [--replay FILE]

Exit 0: property held on everything explored (KNOWN-FINDING lines possible)
Exit 1: VIOLATION property=<id> replay=<path>
Exit 2: machinery failure (never a violation)
"""

import argparse
import importlib
import json
import os
import sys
import traceback

from . import common
from .common import MachineryFailure, Reporter


def main():
    ap = argparse.ArgumentParser()
    ap.add_argument("prop")
    ap.add_argument("--tier", default=os.environ.get("VERIF_TIER", "quick"), choices=["quick", "thorough"])
    ap.add_argument("--replay", default=None)
    a = ap.parse_args()
    prop = a.prop.upper()
    try:
        mod = importlib.import_module(f"harness.props.{prop.lower()}")
    except ModuleNotFoundError:
        print(f"unknown property {prop}", file=sys.stderr)
        return 2
    rep = Reporter(prop, a.tier)
    try:
        if a.replay:
            with open(a.replay, encoding="utf-8") as f:
                rp = json.load(f)
            if not hasattr(mod, "replay"):
                print("no replay support for this property", file=sys.stderr)
                return 2
            return mod.replay(rp, rep)
        mod.run(a.tier, rep)
        return rep.finish(**getattr(mod, "FINISH", {}))
    except MachineryFailure as err:
        print(f"MACHINERY-FAILURE [{prop}]: {err}", file=sys.stderr)
        return 2
    except Exception:  # pylint: disable=broad-except
        traceback.print_exc()
        print(f"MACHINERY-FAILURE [{prop}]: unexpected exception in the harness", file=sys.stderr)
        return 2


if __name__ == "__main__":
    sys.exit(main())
