"""
Coverage-guided corpus expansion (untrusted generator, DESIGN 2.1): inputs that
reach lines / line-transitions of the pyrtcm package that the structure-aware
corpus did not reach are ADDED to the corpus that the specification judges.
Only coverage is used as feedback - there is no oracle here; verdicts come from
TLC as for every other input.

The point: a hidden branch (a fast path, a cache hit, a special case for one
mask shape or one length) is invisible to a fixed set of profiles but shows up
as new coverage as soon as some mutated input takes it - also on the SECOND
decode of the same bytes, which is executed as part of every candidate.
"""

import os
import sys
import time

from . import common

TOOL = 3  # sys.monitoring tool id (free slot)


class Coverage:
    def __init__(self):
        import pyrtcm

        self.pkg = os.path.dirname(os.path.abspath(pyrtcm.__file__))
        self.cur = None
        self.prev = {}
        self.mon = getattr(sys, "monitoring", None)

    def _line(self, code, line):
        if code.co_filename.startswith(self.pkg):
            key = id(code)
            p = self.prev.get(key, 0)
            self.cur.add((code.co_filename, code.co_name, p, line))
            self.prev[key] = line
            return None
        return self.mon.DISABLE

    def run(self, fn):
        """run fn() and return the set of (file, function, previous line, line) transitions it took"""
        self.cur = set()
        self.prev = {}
        if self.mon is None:        # python < 3.12: fall back to settrace
            def tracer(frame, event, arg):
                if not frame.f_code.co_filename.startswith(self.pkg):
                    return None
                if event == "line":
                    key = id(frame.f_code)
                    self.cur.add((frame.f_code.co_filename, frame.f_code.co_name, self.prev.get(key, 0), frame.f_lineno))
                    self.prev[key] = frame.f_lineno
                return tracer

            sys.settrace(tracer)
            try:
                fn()
            finally:
                sys.settrace(None)
            return self.cur
        m = self.mon
        m.use_tool_id(TOOL, "pyrtcm-verif")
        try:
            m.register_callback(TOOL, m.events.LINE, self._line)
            m.set_events(TOOL, m.events.LINE)
            m.restart_events()
            try:
                fn()
            finally:
                m.set_events(TOOL, 0)
        finally:
            m.free_tool_id(TOOL)
        return self.cur


def _decode_twice(payload, labelmsm):
    from pyrtcm import RTCMMessage

    def fn():
        for _ in (0, 1):
            try:
                RTCMMessage(payload=payload, labelmsm=labelmsm)
            except Exception:  # pylint: disable=broad-except
                pass

    return fn


def mutate(rnd, pl, layout, pool):
    b = bytearray(pl)
    n = len(b)
    if n == 0:
        return bytes([rnd.randrange(256), rnd.randrange(256)])
    k = rnd.randrange(9)
    if k == 0:      # flip 1-3 bits
        for _ in range(rnd.randint(1, 3)):
            p = rnd.randrange(n * 8)
            b[p // 8] ^= 0x80 >> (p % 8)
    elif k in (1, 2, 3) and layout:     # set one field to a special value
        name, idx, off, w = rnd.choice(layout)
        if w and off + w <= n * 8:
            v = int.from_bytes(b, "big")
            sh = n * 8 - off - w
            mask = ((1 << w) - 1) << sh
            val = rnd.choice([0, 1, (1 << w) - 1, 1 << (w - 1), (1 << (w - 1)) - 1, rnd.getrandbits(w), 1 << rnd.randrange(w)])
            v = (v & ~mask) | ((val & ((1 << w) - 1)) << sh)
            b = bytearray(v.to_bytes(n, "big"))
    elif k == 4:    # truncate
        b = b[: rnd.randrange(0, n + 1)]
    elif k == 5:    # extend
        b += bytes(rnd.randrange(256) for _ in range(rnd.randint(1, 8)))
    elif k == 6 and pool:    # splice
        o = rnd.choice(pool)
        c = rnd.randrange(0, min(n, len(o)) + 1)
        b = b[:c] + bytearray(o[c:])
    elif k == 7:    # overwrite a byte with a structural value
        b[rnd.randrange(n)] = rnd.choice([0, 1, 0xFF, 0x80, 0xD3, 0x7F, rnd.randrange(256)])
    else:           # zero / one a byte range
        a = rnd.randrange(n)
        z = rnd.randrange(a, min(n, a + 6) + 1)
        fill = rnd.choice([0, 0xFF])
        for i in range(a, z):
            b[i] = fill
    return bytes(b[:1023])


def expand_decode(seeds, budget_s=12.0, tag="covfuzz", labelmsms=(1, 2), cap=250):
    """
    seeds: list of (payload, layout or None). Returns list of (payload, labelmsm) that reached new coverage.
    """
    rnd = common.rng(tag)
    cov = Coverage()
    seen = set()
    corpus = []
    for pl, layout in seeds:
        seen |= cov.run(_decode_twice(pl, 1))
        corpus.append((pl, layout))
    pool = [c[0] for c in corpus]
    found = []
    t0 = time.time()
    execs = 0
    while time.time() - t0 < budget_s and len(found) < cap:
        pl, layout = rnd.choice(corpus)
        cand = mutate(rnd, pl, layout, pool)
        for _ in range(rnd.randint(0, 2)):
            cand = mutate(rnd, cand, layout if len(cand) == len(pl) else None, pool)
        lab = rnd.choice(labelmsms)
        got = cov.run(_decode_twice(cand, lab))
        execs += 1
        new = got - seen
        if new:
            seen |= got
            found.append((cand, lab))
            corpus.append((cand, layout if len(cand) == len(pl) else None))
    expand_decode.stats = {"executions": execs, "new_coverage_inputs": len(found), "transitions_seen": len(seen), "seconds": round(time.time() - t0, 1)}
    return found
