"""MSM mask-shape corpus shared by C09, C16 and C18 (untrusted generator)."""

from . import gen_messages
from .common import rng


def msm_idents(bundle):
    return sorted(i for i, t in bundle["table"].items() if t == "msm")


def shapes(rnd, quick, k):
    """mask shape dictionaries for the k-th MSM identity"""
    out = []
    # a single satellite at every one of the 64 positions / a single signal at every one of the 32
    poss = range(64)
    if quick:
        poss = sorted({0, 63, (k * 7) % 64, (k * 11 + 3) % 64, (k * 13 + 31) % 64, rnd.randrange(64), rnd.randrange(64)})
    for s in poss:
        g = s % 32 if not quick else (s * 5 + k) % 32
        out.append(("single", {"DF394": 1 << (63 - s), "DF395": 1 << (31 - g), "DF396": "full"}))
    out.append(("emptysat", {"DF394": 0, "DF395": "sparse", "DF396": "full"}))
    out.append(("emptysig", {"DF394": "sparse", "DF395": 0, "DF396": "full"}))
    out.append(("emptycell", {"DF394": "sparse", "DF395": "sparse", "DF396": "empty"}))
    out.append(("lastslots", {"DF394": 1 | (1 << 63), "DF395": 1 | (1 << 31), "DF396": "full"}))
    out.append(("lastcell", {"DF394": "sparse", "DF395": "sparse", "DF396": "last"}))
    out.append(("dense", {"DF394": "random", "DF395": "random", "DF396": "dense"}))
    out.append(("random", {"DF394": "random", "DF395": "sparse", "DF396": "random"}))
    # many satellites x several signals (realistic: 10..40 satellites, 2..4 signals)
    sm = 0
    for _ in range(rnd.randint(10, 40)):
        sm |= 1 << rnd.randrange(64)
    gm = 0
    for _ in range(rnd.randint(2, 4)):
        gm |= 1 << rnd.randrange(32)
    out.append(("manysat", {"DF394": sm, "DF395": gm, "DF396": "dense"}))
    # the legal maximum of the cell mask: Nsat x Nsig = 64 (16 x 4, 8 x 8 - every identity gets one of them)
    if k % 2:
        sm64 = sum(1 << p for p in rnd.sample(range(64), 16))
        gm64 = sum(1 << p for p in rnd.sample(range(32), 4))
    else:
        sm64 = sum(1 << p for p in rnd.sample(range(64), 8))
        gm64 = sum(1 << p for p in rnd.sample(range(32), 8))
    out.append(("cells64", {"DF394": sm64, "DF395": gm64, "DF396": "random"}))
    if not quick:
        # all 32 signals for 2 satellites (64 cells), and 64 satellites x 1 signal
        out.append(("allsig", {"DF394": (1 << 63) | (1 << 20), "DF395": (1 << 32) - 1, "DF396": "full"}))
        out.append(("allsat", {"DF394": (1 << 64) - 1, "DF395": 1 << 29, "DF396": "full"}))
        for _ in range(4):
            out.append(("random", {"DF394": "random", "DF395": "random", "DF396": "random"}))
    return out


def build_all(bundle, tag, quick):
    """-> list of (ident, shape name, payload, encoder)"""
    rnd = rng("msm:" + tag)
    out = []
    for k, ident in enumerate(msm_idents(bundle)):
        for name, mask in shapes(rnd, quick, k):
            pl, enc = gen_messages.build(ident, bundle, rnd, values="random", count="typ", mask=dict(mask))
            if pl is not None:
                out.append((ident, name, pl, enc))
    return out
