"""
Purely syntactic export of the repository's live definition tables into the
JSON AST consumed by the TLA+ specification (Decode.tla, Layout.tla).

Node shape (uniform, so that TLC can access every field of every node):
  k    : "fld" | "grp" | "opt" | "bad"
  n    : field name (fld) / dictionary key of the group (grp, opt) / "" (bad)
  ct   : "fixed" | "attr" | ""          (grp)
  cn   : fixed repeat count             (grp, ct = fixed)
  ca   : counter / condition attribute base name   (grp ct = attr, opt)
  nest : number of outer group indices to append to the counter name (grp)
  cv   : condition value                (opt)
  body : list of nodes                  (grp, opt)
  what : description of the malformation (bad)
"""

import hashlib
import json

from . import common  # noqa: F401  (sets sys.path to the working tree)


def desc_digest(desc):
    """digest of a description text (texts travel to TLC as digests, not as raw strings)"""
    return hashlib.sha256(str(desc).encode("utf-8", "replace")).hexdigest()[:12]


def _node(**kw):
    base = {"k": "", "n": "", "ct": "", "cn": 0, "ca": "", "nest": 0, "cv": 0, "body": [], "what": ""}
    base.update(kw)
    return base


def export_def(pdict):
    """dict payload definition -> list of AST nodes."""
    if not isinstance(pdict, dict):
        return [_node(k="bad", what=f"definition body is {type(pdict).__name__}, not dict")]
    out = []
    for key, adef in pdict.items():
        if not isinstance(key, str):
            out.append(_node(k="bad", what=f"non-string key {key!r}"))
            continue
        if isinstance(adef, tuple):
            if len(adef) != 2:
                out.append(_node(k="bad", n=key, what="group tuple is not a pair"))
                continue
            head, body = adef
            if isinstance(head, tuple):
                if len(head) != 2 or not isinstance(head[0], str) or isinstance(head[1], bool) or not isinstance(head[1], int):
                    out.append(_node(k="bad", n=key, what=f"bad condition {head!r}"))
                    continue
                out.append(_node(k="opt", n=key, ca=head[0], cv=head[1], body=export_def(body)))
            elif isinstance(head, bool):
                out.append(_node(k="bad", n=key, what="boolean group size"))
            elif isinstance(head, int):
                out.append(_node(k="grp", n=key, ct="fixed", cn=head, body=export_def(body)))
            elif isinstance(head, str):
                ca, nest = head, 0
                if "+" in head:
                    parts = head.split("+")
                    if len(parts) != 2 or not parts[1].isdigit():
                        out.append(_node(k="bad", n=key, what=f"bad nested counter {head!r}"))
                        continue
                    ca, nest = parts[0], int(parts[1])
                out.append(_node(k="grp", n=key, ct="attr", ca=ca, nest=nest, body=export_def(body)))
            else:
                out.append(_node(k="bad", n=key, what=f"bad group head {head!r}"))
        elif isinstance(adef, str):
            out.append(_node(k="fld", n=key))
        else:
            out.append(_node(k="bad", n=key, what=f"value is {type(adef).__name__}"))
    return out


def export_fields(fields):
    """RTCM_DATA_FIELDS -> {name: {t, w, sc, us}}  (sc: scaled?, us: name contains '_')"""
    out = {}
    for name, tup in fields.items():
        try:
            atyp, asiz, ares, desc = tup
            ok = isinstance(atyp, str) and isinstance(asiz, int) and not isinstance(asiz, bool)
        except (TypeError, ValueError):
            ok = False
        if not ok:
            out[name] = {"t": "BAD", "w": 0, "sc": False, "us": "_" in name, "d": False, "dd": ""}
            continue
        out[name] = {
            "t": atyp,
            "w": asiz,
            "sc": ares not in (0, 1),
            "us": "_" in name,
            "d": isinstance(desc, str),
            "dd": desc_digest(desc),
        }
    return out


def load_repo_tables():
    """Import (fresh) the repository's tables from the working tree."""
    from pyrtcm.rtcmtables import PRNSIGMAP
    from pyrtcm.rtcmtypes_core import GNSSMAP, RTCM_DATA_FIELDS, RTCM_MSGIDS
    from pyrtcm.rtcmtypes_get import RTCM_PAYLOADS_GET
    from pyrtcm.rtcmtypes_get_igs import RTCM_PAYLOADS_GET_IGS
    from pyrtcm.rtcmtypes_get_msm import RTCM_PAYLOADS_GET_MSM

    return {
        "fields": RTCM_DATA_FIELDS,
        "get": RTCM_PAYLOADS_GET,
        "msm": RTCM_PAYLOADS_GET_MSM,
        "igs": RTCM_PAYLOADS_GET_IGS,
        "msgids": RTCM_MSGIDS,
        "prnsigmap": PRNSIGMAP,
        "gnssmap": GNSSMAP,
    }


def export_all(extra_defs=None, extra_fields=None):
    """
    Returns the JSON-able table bundle:
      fields : {name: {...}}
      defs   : {identity: [nodes]}
      table  : {identity: "get"|"msm"|"igs"}
      msgids : [identity, ...]
    """
    t = load_repo_tables()
    defs, table = {}, {}
    for tn in ("get", "msm", "igs"):
        for ident, pdict in t[tn].items():
            if ident in defs:
                continue
            defs[str(ident)] = export_def(pdict)
            table[str(ident)] = tn
    fields = export_fields(t["fields"])
    if extra_fields:
        fields.update(export_fields(extra_fields))
    if extra_defs:
        for ident, pdict in extra_defs.items():
            defs[str(ident)] = export_def(pdict)
            table[str(ident)] = "get"
    return {
        "fields": fields,
        "defs": defs,
        "table": table,
        "msgids": sorted(str(k) for k in t["msgids"]),
    }


def write(path, bundle):
    with open(path, "w", encoding="utf-8") as f:
        json.dump(bundle, f)
    return path


if __name__ == "__main__":
    import sys

    b = export_all()
    write(sys.argv[1] if len(sys.argv) > 1 else "/dev/stdout", b)
