"""Socket engine: MC of SockBuf.tla and trace validation of the real SocketWrapper."""

from . import sock_rec, tlc
from .common import MachineryFailure

MC_CFG = """SPECIFICATION Spec
CONSTANTS Chunked = %(chunked)s
 BufSize = %(bufsize)d
 Inflate <- IdInflate
 Sym = {1, 13, 10}
 MaxLen = %(maxlen)d
 MaxN = %(maxn)d
 MaxFail = %(maxfail)d
 MaxChunks = %(maxchunks)d
 WithCalls = %(calls)s
INVARIANT PrefixOK
INVARIANT SizeOK
INVARIANT TailIsSuffix
INVARIANT AllDecodedAtEnd
PROPERTY TimeoutKeepsData
CHECK_DEADLOCK FALSE
"""


def mc(rep, chunked, bufsize, maxlen=0, maxn=3, maxfail=1, maxchunks=0, calls=True, workers=8):
    cfg = MC_CFG % dict(chunked="TRUE" if chunked else "FALSE", bufsize=bufsize, maxlen=maxlen, maxn=maxn, maxfail=maxfail,
                        maxchunks=maxchunks, calls="TRUE" if calls else "FALSE")
    res = tlc.run("MC_Sock", cfg, workers=workers, heap="3g", timeout=3000)
    tlc.must_ok(res, f"MC_Sock chunked={chunked} bufsize={bufsize}")
    rep.add_tlc(res)
    rep.notes.setdefault("mc_sock", []).append({"chunked": chunked, "bufsize": bufsize, "maxlen": maxlen, "maxchunks": maxchunks,
                                                "calls": calls, "states": res.distinct})
    return res


class SockTraces:
    def __init__(self, rep, chunked):
        self.rep = rep
        self.chunked = chunked
        self.traces = []
        self.meta = {}
        self.inflate = []
        self.results = {}

    def add(self, data, script, calls, encoding=0, bufsize=4096, **meta):
        tid = len(self.traces) + 1
        ev, res = sock_rec.run_wrapper(data, script, calls, encoding, bufsize)
        self.traces.append({"tid": tid, "enc": encoding, "env": False, "ev": ev})
        meta.update(data=data, script=script, calls=calls, encoding=encoding, bufsize=bufsize)
        self.meta[tid] = meta
        self.results[tid] = res
        return tid, ev, res

    def judge(self, shards=16, always_env=False):
        verdicts, results = sock_rec.judge(self.traces, self.chunked, self.inflate, shards=shards)
        for r in results:
            self.rep.add_tlc(r)
        self.rep.count("traces_validated_against_impl", len(self.traces))
        # plain mode: a trace rejected because an event does not fit the specification's RECEIVE
        # PATTERN is judged again by the envelope binding (what is returned, not when recv is called)
        pattern = [tid for tid, v in verdicts.items() if v[0] == "reject" and v[1] == "EventDoesNotFit"] if not self.chunked else []
        env_sample = [] if self.chunked or not always_env else [t["tid"] for t in self.traces][:: max(1, len(self.traces) // 300)]
        todo = sorted(set(pattern) | set(env_sample))
        if todo:
            again = [dict(self.traces[tid - 1], env=True) for tid in todo]
            v2, r2 = sock_rec.judge(again, False, self.inflate, shards=shards, invariants=False)
            for r in r2:
                self.rep.add_tlc(r)
            for tid in todo:
                if tid in pattern:
                    v = v2[tid]
                    verdicts[tid] = (v[0], v[1] if v[0] == "accept" else "Env:" + v[1], v[2], v[3])
                elif v2[tid][0] == "reject" and verdicts[tid][0] == "accept":
                    verdicts[tid] = ("reject", "Env:" + v2[tid][1], v2[tid][2], v2[tid][3])
            if pattern:
                self.rep.notes["recv_pattern_deviation"] = {"traces": len(pattern), "judged_by_envelope": len(pattern)}
            self.rep.notes["envelope_traces"] = len(todo)
        return verdicts

    def replay_of(self, tid, v):
        m = self.meta[tid]
        k = v[2]
        ev = self.traces[tid - 1]["ev"]
        return {
            "engine": "socket", "stream_hex": m["data"].hex(), "recv_script": m["script"], "calls": [list(c) for c in m["calls"]],
            "encoding": m["encoding"], "bufsize": m["bufsize"], "spec_verdict": list(v),
            "events_near": [{kk: (vv if kk not in ("data", "buffer") else bytes(vv).hex()[:60]) for kk, vv in e.items()} for e in ev[max(0, k - 5): k + 1]],
        }
