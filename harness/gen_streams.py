"""Untrusted stream generator: mixes of valid frames, foreign items, noise, damage; fault schedules."""

from .decode_rec import frame_of

NMEA_OK = [b"$GNGLL,5327.04319,N,00214.41396,W,223232.00,A,A*68\r\n", b"$GPGSV,1,1,00*79\r\n", b"$PUBX,00*33\r\n", b"$GX\n"]


def ubx(rnd, n=None):
    n = rnd.choice([0, 1, 4, 20, 300]) if n is None else n
    pl = bytes(rnd.choice([0xD3, 0xB5, 0x24, 0x62, rnd.randrange(256)]) for _ in range(n))
    return b"\xb5\x62" + bytes([rnd.randrange(256), rnd.randrange(256)]) + n.to_bytes(2, "little") + pl + bytes([rnd.randrange(256), rnd.randrange(256)])


def noise(rnd, n=None, inert=True):
    n = rnd.randint(1, 12) if n is None else n
    if inert:
        return bytes(rnd.choice([b for b in range(256) if b not in (0xD3, 0xB5, 0x24)]) for _ in range(n))
    return bytes(rnd.choice([0xD3, 0xB5, 0x24, 0x62, 0x47, 0x00, 0x01, rnd.randrange(256)]) for _ in range(n))


def damage(rnd, frame, kind=None, where=None):
    """flip 1-3 bits or a burst <= 24 bits somewhere behind the 3-byte header
    where: None (anywhere behind the header) | "crc" (checksum bytes only) | "payload" """
    kind = kind or rnd.choice(["bit1", "bit2", "bit3", "burst"])
    b = bytearray(frame)
    if where == "crc" or (where == "payload" and len(b) > 6):
        lo, hi = ((len(b) - 3) * 8, len(b) * 8) if where == "crc" else (24, (len(b) - 3) * 8)
        n = int(kind[3]) if kind.startswith("bit") else rnd.randint(2, 12)
        if kind.startswith("bit"):
            pos = rnd.sample(range(lo, hi), min(n, hi - lo))
        else:
            n = min(n, hi - lo)
            st = rnd.randrange(lo, hi - n + 1)
            pos = sorted({st, st + n - 1} | {st + i for i in range(n) if rnd.random() < 0.5})
        for p in pos:
            b[p // 8] ^= 0x80 >> (p % 8)
        return bytes(b)
    nbits = (len(b) - 3) * 8
    if kind == "burst":
        ln = rnd.randint(2, 24)
        ln = min(ln, nbits)
        start = rnd.randrange(nbits - ln + 1)
        pat = rnd.getrandbits(ln) | 1 | (1 << (ln - 1))
        for i in range(ln):
            if pat >> i & 1:
                p = 24 + start + i
                b[p // 8] ^= 0x80 >> (p % 8)
    else:
        for p in rnd.sample(range(nbits), int(kind[3])):
            p += 24
            b[p // 8] ^= 0x80 >> (p % 8)
    return bytes(b)


def faults(rnd, ncalls_guess, mode):
    """fault schedule over call indices"""
    if mode == "none":
        return {}
    f = {}
    if mode == "eof":
        f[rnd.randrange(max(1, ncalls_guess))] = ("empty",)
        return f
    k = rnd.randint(1, 6)
    for _ in range(k):
        i = rnd.randrange(max(1, ncalls_guess))
        f[i] = rnd.choice([("short", rnd.randint(1, 40)), ("short", 1), ("empty",)]) if mode == "mixed" else ("short", rnd.randint(1, 40))
    return f


def mixed_stream(rnd, payloads, n_items=12, well_formed=True, dmg=0.0, crlf_only=False):
    """
    -> (bytes, items) where items = list of (kind, bytes, payload or None, damaged?)
    payloads: pool of payload byte strings (real message types)
    """
    items = []
    used = []
    for _ in range(n_items):
        r = rnd.random()
        if r < 0.55:
            # sometimes repeat an earlier payload verbatim (stations repeat 1005/1033/1230 ...)
            pl = rnd.choice(used) if used and rnd.random() < 0.3 else rnd.choice(payloads)
            used.append(pl)
            fr = frame_of(pl)
            if dmg and rnd.random() < dmg:
                items.append(("damaged", damage(rnd, fr, where=rnd.choice([None, None, "crc", "payload"])), pl, True))
            else:
                items.append(("frame", fr, pl, False))
                if not well_formed and rnd.random() < 0.3 and len(pl) >= 10:
                    # a different valid frame of the same length with the SAME CRC-24Q (and the same
                    # first bytes) right behind it
                    from .gen_crc import twin

                    tw = twin(pl, rnd)
                    if tw is not None:
                        items.append(("frame", frame_of(tw), tw, False))
        elif r < 0.65:
            mid = rnd.choice([0, 5, 999, 1069, 2000 + rnd.randrange(1000), 4095])
            pl = bytes([mid >> 4, (mid & 0xF) << 4 | rnd.randrange(16)]) + bytes(rnd.randrange(256) for _ in range(rnd.choice([0, 1, 7, 60])))
            items.append(("frame", frame_of(pl), pl, False))
        elif r < 0.70:
            items.append(("frame0", frame_of(b""), b"", False))
        elif r < 0.80:
            nm = rnd.choice(NMEA_OK[:3] if crlf_only else NMEA_OK)
            items.append(("nmea", nm, None, False))
        elif r < 0.90:
            items.append(("ubx", ubx(rnd), None, False))
        else:
            items.append(("noise", noise(rnd, inert=well_formed), None, False))
    if not well_formed:
        # adversarial extras: truncated frame, false headers
        pl = rnd.choice(payloads)
        fr = frame_of(pl)
        items.insert(rnd.randrange(len(items) + 1), ("trunc", fr[: rnd.randrange(1, len(fr))], None, True))
        items.insert(rnd.randrange(len(items) + 1), ("falsehdr", bytes([0xD3, rnd.choice([4, 0x80, 0xFF])]) + noise(rnd, 3, False), None, True))
        items.insert(rnd.randrange(len(items) + 1), ("falsehdr", b"\xb5" + bytes([rnd.choice([0x61, 0xD3])]), None, True))
        # a frame that is checksum-consistent but has a reserved header bit set (not a well-formed frame)
        pl2 = rnd.choice(payloads)
        hdr = bytes([0xD3, (len(pl2) >> 8) | rnd.choice([0x04, 0x80, 0x44]), len(pl2) & 0xFF])
        from .decode_rec import crc24q
        items.insert(rnd.randrange(len(items) + 1), ("reserved", hdr + pl2 + crc24q(hdr + pl2).to_bytes(3, "big"), None, True))
        items.insert(rnd.randrange(len(items) + 1), ("falsehdr", b"$" + bytes([rnd.choice([0x67, 0x31, 0xD3])]), None, True))
    return b"".join(i[1] for i in items), items
