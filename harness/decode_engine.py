"""
Decode engine shared by the decoder-family properties: table export, mini
model checking, mini replay, corpus recording and judging.
"""

import json
import os
import subprocess
import sys

from . import common, decode_rec, export_tables, minidefs, tlc
from .common import MachineryFailure

MC_CFG = """SPECIFICATION MCSpec
CONSTANTS
  Fields <- MFields
  Defs <- MDefs
  TableOf <- MTable
  FreeBits = %d
INVARIANT NoOverrun
INVARIANT IdxDepth
INVARIANT NamesDistinct
INVARIANT CountsArePopcounts
INVARIANT CellOrder
INVARIANT CellsInRange
INVARIANT OkInside
INVARIANT StubShape
INVARIANT TypeOK
%s
"""

# every action of Decode must be exercised by the mini model (vacuity control)
MC_ACTIONS = ["Begin", "Field", "EnterGroup", "SkipGroup", "EnterOpt", "SkipOpt", "BadNode", "NextIter", "ExitFrame", "Finish"]


def real_bundle():
    return export_tables.export_all()


def mini_bundle(with_msm=True):
    fields = dict(minidefs.MINI_FIELDS)
    fields.update(minidefs.HARM_FIELDS)
    b = export_tables.export_all(extra_defs=minidefs.MINI_DEFS, extra_fields=fields)
    mini = {k: b["defs"][k] for k in minidefs.MINI_DEFS}
    mf = dict(b["fields"])
    table = {k: "get" for k in mini}
    if with_msm:
        mf.update(export_tables.export_fields(minidefs.MSM_FIELDS))
        mini[minidefs.MSM_MINI_ID] = export_tables.export_def(minidefs.MSM_MINI_DEF)
        table[minidefs.MSM_MINI_ID] = "msm"
    return {"fields": mf, "defs": mini, "table": table, "hdr": {k: int(k) for k in mini}, "msgids": b["msgids"]}


def mc_mini(rep, freebits, liveness=True, workers=8, heap="2g"):
    """Model-check Decode.tla on the mini-definitions; adds states to the reporter."""
    tp = decode_rec.write_tables(mini_bundle(True), "mini-mc.json")
    cfg = MC_CFG % (freebits, "PROPERTY Terminates" if liveness else "")
    res = tlc.run("MC_DecodeMini", cfg, env={"VERIF_TABLES": tp}, workers=workers, heap=heap, coverage=True, timeout=3000)
    tlc.must_ok(res, f"MC_DecodeMini FreeBits={freebits}")
    cov = res.action_coverage()
    dead = [a for a in MC_ACTIONS if cov.get(a, (0, 0))[1] == 0]
    if dead:
        raise MachineryFailure(f"MC_DecodeMini: actions never taken (vacuous model): {dead}")
    rep.add_tlc(res)
    rep.notes.setdefault("mc_action_coverage", {}).update({a: cov[a][1] for a in MC_ACTIONS})
    return res


PAIR_CFG = """SPECIFICATION Spec
CONSTANTS FreeBits = %d
 Kind = "%s"
INVARIANT PrefixMonotone
INVARIANT CutRule
INVARIANT TailIndependent
INVARIANT FieldLocal
CHECK_DEADLOCK FALSE
"""


def mc_pair(rep, kind, freebits, workers=8):
    """Two-run lemmas of the interpreter (DecodePair.tla): PrefixMonotone / CutRule (kind cut), TailIndependent (kind tail)."""
    tp = decode_rec.write_tables(mini_bundle(False), "mini-pair.json")
    res = tlc.run("DecodePair", PAIR_CFG % (freebits, kind), env={"VERIF_TABLES": tp}, workers=workers, heap="3g", timeout=3000)
    tlc.must_ok(res, f"DecodePair {kind} FreeBits={freebits}")
    rep.add_tlc(res)
    rep.notes.setdefault("mc_pair", []).append({"kind": kind, "freebits": freebits, "states": res.distinct})
    return res


def mini_records(freebits, stride=1):
    """Decode every mini payload with the real interpreter (in a subprocess)."""
    out = os.path.join(common.scratch(), f"mini-recs-{freebits}-{stride}.json")
    env = dict(os.environ)
    env["PYTHONPATH"] = common.VERIF + os.pathsep + env.get("PYTHONPATH", "")
    p = subprocess.run(
        [sys.executable, "-m", "harness.mini_replay", out, str(freebits), str(stride)],
        cwd=common.VERIF,
        env=env,
        capture_output=True,
        text=True,
        check=False,
    )
    if p.returncode != 0:
        raise MachineryFailure("mini_replay failed: " + p.stderr[-2000:])
    with open(out, encoding="utf-8") as f:
        return json.load(f)


def judge_minis(rep, freebits, stride=1, shards=16):
    """Replay of the mini scope through the real code, judged by the spec."""
    recs = mini_records(freebits, stride)
    tp = decode_rec.write_tables(mini_bundle(False), "mini-judge.json")
    verdicts, results = decode_rec.judge(recs, tp, shards=shards)
    for r in results:
        rep.add_tlc(r)
    return recs, verdicts


class Corpus:
    """Records of real decodes + their metadata, judged in one go."""

    def __init__(self, rep, bundle=None):
        self.rep = rep
        self.bundle = bundle or real_bundle()
        self.tables = decode_rec.write_tables(self.bundle, f"tables-{id(self) % 100000}.json")
        self.recs = []
        self.meta = {}
        self.msgs = {}

    def add(self, payload, labelmsm=1, keep_msg=False, lbl=True, via="ctor", frame=None, validate=1, **meta):
        rid = len(self.recs) + 1
        omit = None
        try:
            with common.watchdog(30):
                if rid % 4 == 3 and via == "ctor" and payload is not None and len(payload) > 4:
                    # history dimension: a REJECTED decode first - a prefix of the same payload, cut
                    # somewhere after the identity - then the decode that is recorded
                    k = 3 + (rid * 7919) % (len(payload) - 3)
                    decode_rec.record_decode(0, bytes(payload)[:k], labelmsm)
                    meta["after_rejected_prefix"] = k
                elif rid % 4 == 1 and payload is not None and len(payload) >= 2 and labelmsm == 1 and labelmsm is not True:
                    # history dimension: the same bytes through the static parser with NON-default options
                    # first; the recorded decode then leaves its (default) options out
                    decode_rec.record_decode(0, None, 2, via="parse", frame=decode_rec.frame_of(bytes(payload)), validate=0)
                    omit = True
                    meta["after_nondefault_options"] = True
                if rid % 8 == 5 and via == "ctor" and payload is not None and len(payload) <= 1023:
                    # entry-point dimension: the same payload through the STATIC PARSER (as a valid frame)
                    r, msg = decode_rec.record_decode(rid, None, labelmsm, via="parse", frame=decode_rec.frame_of(bytes(payload)), validate=1, omit=omit)
                    meta["via_static_parser"] = True
                elif rid % 8 == 7 and via == "ctor" and payload is not None and len(payload) >= 2:
                    # entry-point dimension: the same payload through a stream reader with validation OFF
                    # (judged like the constructor: the frame is valid, the decode must be the same)
                    r, msg = decode_rec.record_decode(rid, payload, labelmsm, via="reader", validate=0)
                    if r["out"] == "raise" and r["cls"] == "RuntimeError":
                        r, msg = decode_rec.record_decode(rid, payload, labelmsm, via=via, frame=frame, validate=validate, omit=omit)
                    else:
                        meta["via_reader_validate0"] = True
                else:
                    r, msg = decode_rec.record_decode(rid, payload, labelmsm, via=via, frame=frame, validate=validate, omit=omit)
        except common.Watchdog:
            r, msg = decode_rec.record_decode(rid, b"", labelmsm)      # placeholder record
            r.update(p=list(payload or b""), out="raise", cls="Watchdog(no termination)", lib=False)
        if rid % 2 == 0 and r["cls"] != "Watchdog(no termination)":
            # history dimension: every other record is the SECOND decode of the same bytes in this
            # process (caches keyed by payload, state surviving a parse, ...)
            r, msg = decode_rec.record_decode(rid, payload, labelmsm, via=via, frame=frame, validate=validate)
            meta["second_decode"] = True
        r["lbl"] = bool(lbl)
        self.recs.append(r)
        meta["labelmsm"] = labelmsm
        self.meta[rid] = meta
        if keep_msg:
            self.msgs[rid] = msg
        return rid, r, msg

    def add_message(self, payload, msg, labelmsm=1, lbl=True, **meta):
        """record built from a message object returned by the reader for the slice payload"""
        rid = len(self.recs) + 1
        r = decode_rec.record_of_message(rid, payload, msg, labelmsm)
        r["lbl"] = bool(lbl)
        self.recs.append(r)
        meta["labelmsm"] = labelmsm
        self.meta[rid] = meta
        return rid, r

    def judge(self, shards=16):
        verdicts, results = decode_rec.judge(self.recs, self.tables, shards=shards)
        for r in results:
            self.rep.add_tlc(r)
        self.rep.count("traces_validated_against_impl", len(self.recs))
        self.learnt = dict(decode_rec.judge.last_learnt)
        self.conflicts = list(decode_rec.judge.last_conflicts)
        return verdicts


def replay_of(rec, meta, verdict):
    return {
        "engine": "decode",
        "via": rec.get("via", "ctor"),
        "frame_hex": bytes(rec.get("frame") or []).hex(),
        "validate": rec.get("validate", 1),
        "payload_hex": bytes(rec["p"]).hex(),
        "labelmsm": meta.get("labelmsm", 1),
        "observed": {"out": rec["out"], "cls": rec["cls"], "ident": rec["ident"], "nattrs": len(rec["attrs"])},
        "spec_verdict": list(verdict),
        "meta": {k: v for k, v in meta.items() if isinstance(v, (str, int, float, bool, list))},
    }
