"""
Shared plumbing of the verification harness: paths, seeds, scratch dirs,
evidence files, known-findings matching, violation reporting.

Exit codes (DESIGN 2.3/5): 0 held, 1 violation, 2 machinery failure.
"""

import atexit
import hashlib
import json
import os
import random
import re
import shutil
import sys
import tempfile
import time

VERIF = os.path.dirname(os.path.dirname(os.path.abspath(__file__)))
REPO = os.environ.get("VERIF_REPO", "/repo")
SPEC = os.path.join(VERIF, "spec")
EVID = os.environ.get("VERIF_EVIDENCE") or os.path.join(VERIF, "evidence")
REPLAYS = os.environ.get("VERIF_REPLAYS") or os.path.join(VERIF, "replays")
EVID_DIR_ENV = os.environ.get("VERIF_EVIDENCE")
FINDINGS = os.path.join(VERIF, "known_findings.json")

# the repository is always imported from its *current working tree*
sys.path.insert(0, os.path.join(REPO, "src"))
os.environ.setdefault("PYRTCM_VERIF", "1")


class Watchdog(BaseException):
    """raised by the per-case watchdog (C04 termination clause); BaseException so that the
    library's own `except Exception` cannot swallow it"""


class watchdog:  # pylint: disable=invalid-name
    """context manager: raise Watchdog in the main thread after `seconds` (generous: inputs take ms)"""

    def __init__(self, seconds=20.0):
        self.seconds = seconds

    def _fire(self, signum, frame):
        raise Watchdog()

    def __enter__(self):
        import signal

        self._old = signal.signal(signal.SIGALRM, self._fire)
        signal.setitimer(signal.ITIMER_REAL, self.seconds)
        return self

    def __exit__(self, *exc):
        import signal

        signal.setitimer(signal.ITIMER_REAL, 0)
        signal.signal(signal.SIGALRM, self._old)
        return False


class MachineryFailure(Exception):
    """Something in the checking machinery itself failed (exit 2, never a VIOLATION)."""


def seed() -> int:
    try:
        return int(os.environ.get("VERIF_SEED", "0"))
    except ValueError:
        return 0


def rng(tag: str) -> random.Random:
    """Deterministic RNG per (VERIF_SEED, tag)."""
    h = hashlib.sha256(f"{seed()}:{tag}".encode()).digest()
    return random.Random(int.from_bytes(h[:8], "big"))


_scratch = None


def scratch() -> str:
    """Per-run scratch directory, removed on exit."""
    global _scratch
    if _scratch is None:
        base = os.environ.get("VERIF_TMP") or tempfile.gettempdir()
        _scratch = tempfile.mkdtemp(prefix="pyrtcm-verif-", dir=base)
        atexit.register(shutil.rmtree, _scratch, True)
    return _scratch


def digest(obj) -> str:
    if isinstance(obj, (bytes, bytearray)):
        b = bytes(obj)
    else:
        b = json.dumps(obj, sort_keys=True, default=str).encode()
    return hashlib.sha256(b).hexdigest()[:16]


# --------------------------------------------------------------------------
# known findings
# --------------------------------------------------------------------------
def load_findings():
    try:
        with open(FINDINGS, encoding="utf-8") as f:
            return json.load(f)
    except FileNotFoundError:
        return {"open": [], "fixed": []}


def _sig_match(sig: dict, facts: dict) -> bool:
    """Every key of the signature must match (regex, full match) the fact of the same name."""
    for k, pat in sig.items():
        if k not in facts:
            return False
        if re.fullmatch(str(pat), str(facts[k])) is None:
            return False
    return True


class Reporter:
    """
    Collects rejections for one property run, separates known findings from
    violations, writes replay files and the evidence file.
    """

    def __init__(self, prop: str, tier: str):
        self.prop = prop
        self.tier = tier
        self.t0 = time.time()
        self.violations = []  # (clause, facts, replay)
        self.known = {}  # what -> count
        self.findings = [f for f in load_findings().get("open", []) if f["property"] == prop]
        self.cov = {
            "evaluations": 0,
            "distinct_nontrivial": 0,
            "states": 0,
            "transitions": 0,
            "traces_validated_against_impl": 0,
            "samples": [],
        }
        self._distinct = set()
        self.notes = {}
        self.assumptions = []
        self.max_print = 12

    # -- counting ---------------------------------------------------------
    def count(self, key, n=1):
        self.cov[key] = self.cov.get(key, 0) + n

    def case(self, dig, nontrivial=True):
        """Register one evaluated case by digest."""
        self.cov["evaluations"] += 1
        if nontrivial:
            self._distinct.add(dig)

    def sample(self, s, cap=6):
        if len(self.cov["samples"]) < cap:
            self.cov["samples"].append(s)

    def add_tlc(self, res):
        """Accumulate states/transitions of a TLC run."""
        self.cov["states"] += res.distinct
        self.cov["transitions"] += res.generated
        mod = res.cmd[-1]
        agg = self.notes.setdefault("tlc_runs", {}).setdefault(
            mod, {"runs": 0, "states": 0, "transitions": 0, "max_depth": 0, "max_wall_s": 0.0}
        )
        agg["runs"] += 1
        agg["states"] += res.distinct
        agg["transitions"] += res.generated
        agg["max_depth"] = max(agg["max_depth"], res.depth)
        agg["max_wall_s"] = max(agg["max_wall_s"], round(res.wall, 2))

    # -- rejections -------------------------------------------------------
    def reject(self, clause: str, facts: dict, replay: dict):
        """
        A rejection by a judge / replay / invariant. `facts` are the
        signature facts (engine, identity, ...) used to match known findings.
        """
        facts = dict(facts)
        facts["clause"] = clause
        for f in self.findings:
            if f.get("clause") and re.fullmatch(f["clause"], clause) is None:
                continue
            if _sig_match(f.get("signature", {}), facts):
                self.known[f["what"]] = self.known.get(f["what"], 0) + 1
                return
        os.makedirs(os.path.join(REPLAYS, self.prop), exist_ok=True)
        body = {"property": self.prop, "clause": clause, "facts": facts, **replay}
        name = f"{clause}-{digest(body)}.json"
        path = os.path.join(REPLAYS, self.prop, name)
        with open(path, "w", encoding="utf-8") as f:
            json.dump(body, f, indent=1, default=str)
        self.violations.append((clause, facts, path))

    # -- finish -----------------------------------------------------------
    def finish(self, level="model_checking", rule="", extra=None) -> int:
        self.cov["distinct_nontrivial"] = len(self._distinct)
        self.cov["rule"] = rule
        if extra:
            self.cov.update(extra)
        self.cov.update(self.notes)
        if not self.cov["samples"]:
            self.cov["samples"] = ["(no sample recorded)"]
        for what, n in sorted(self.known.items()):
            print(f"KNOWN-FINDING: property={self.prop} {what} (x{n})")
        shown = 0
        for clause, facts, path in self.violations:
            if shown < self.max_print:
                print(f"VIOLATION property={self.prop} replay={path}")
                print(f"  clause={clause} facts={json.dumps(facts, default=str)[:300]}")
            shown += 1
        if shown > self.max_print:
            print(f"  ... {shown - self.max_print} further violations (replay files written)")
        ev = {
            "property_id": self.prop,
            "tier": self.tier,
            "seed": seed(),
            "level": level,
            "coverage": self.cov,
            "assumptions": self.assumptions,
            "wall_s": round(time.time() - self.t0, 2),
            "violations": len(self.violations),
        }
        if self.known:
            ev["coverage"]["known_findings_hit"] = self.known
        os.makedirs(EVID, exist_ok=True)
        with open(os.path.join(EVID, f"{self.prop}.json"), "w", encoding="utf-8") as f:
            json.dump(ev, f, indent=1, default=str)
        status = "VIOLATED" if self.violations else "held"
        print(
            f"[{self.prop}] {status}: evaluations={self.cov['evaluations']} "
            f"distinct={self.cov['distinct_nontrivial']} states={self.cov['states']} "
            f"traces={self.cov['traces_validated_against_impl']} wall={ev['wall_s']}s"
        )
        return 1 if self.violations else 0
