"""Scripted socket double (a socket.socket subclass, so RTCMReader's isinstance auto-wrapping is exercised)."""

import socket


class ScriptedSocket(socket.socket):
    """
    recv() answers follow a script: list of entries
       int n      -> the next (at most n, at most bufsize) bytes of `data`
       "timeout"  -> raises TimeoutError
       "oserror"  -> raises OSError
       "close"    -> returns b"" (peer closed) from now on
    When the script is exhausted the remaining data is delivered bufsize-wise, then b"".
    """

    def __init__(self, data: bytes, script=None):
        super().__init__(socket.AF_INET, socket.SOCK_STREAM)
        self._data = bytes(data)
        self._pos = 0
        self._script = list(script or [])
        self._si = 0
        self.log = []  # (bufsize, answer bytes | "timeout" | "oserror")
        self.sent = []
        self._closed = False

    def recv(self, bufsize, flags=0):  # pylint: disable=arguments-differ
        entry = None
        if self._si < len(self._script):
            entry = self._script[self._si]
            self._si += 1
        if entry == "timeout":
            self.log.append((bufsize, "timeout"))
            raise TimeoutError("scripted timeout")
        if entry == "oserror":
            self.log.append((bufsize, "oserror"))
            # OS errors come in many classes: rotate through a few (all are OSError)
            self._nerr = getattr(self, "_nerr", 0) + 1
            kinds = [OSError("scripted os error"), ConnectionResetError(104, "reset"), InterruptedError(4, "interrupted"),
                     OSError(113, "no route to host"), BlockingIOError(11, "would block"), BrokenPipeError(32, "broken pipe")]
            raise kinds[(self._nerr + len(self._data)) % len(kinds)]
        if entry == "close":
            self._closed = True
        if self._closed:
            self.log.append((bufsize, b""))
            return b""
        n = bufsize if entry is None else max(1, min(int(entry), bufsize))
        out = self._data[self._pos : self._pos + n]
        self._pos += len(out)
        self.log.append((bufsize, out))
        return out

    def send(self, data, flags=0):  # pylint: disable=arguments-differ
        self.sent.append(bytes(data))
        return len(data)

    @property
    def drained(self):
        return self._pos >= len(self._data)


def segmentation(rnd, total, mode):
    """list of segment lengths covering `total` bytes"""
    if mode == "all":
        return [max(total, 1)]
    if mode == "bytewise":
        return [1] * total
    out = []
    left = total
    while left > 0:
        if mode == "small":
            n = rnd.randint(1, 7)
        elif mode == "mixed":
            n = rnd.choice([1, 2, 3, 5, 17, 64, 255, 256, 1000, 4096])
        else:
            n = rnd.randint(1, max(1, total // 3))
        n = min(n, left)
        out.append(n)
        left -= n
    return out


def critical_segmentation(rnd, items):
    """
    Segment lengths whose boundaries fall at the places where a stream parser is most fragile:
    before/after the first bytes of every item and just before its last byte (for a CRLF-terminated
    NMEA sentence: between CR and LF). items: list of byte strings. A random subset of the cut
    points is used so that different runs combine them differently.
    """
    cuts = set()
    pos = 0
    for it in items:
        n = len(it)
        for c in (0, 1, 2, 3, n - 2, n - 1):
            if 0 < pos + c and 0 <= c <= n:
                cuts.add(pos + c)
        pos += n
    cuts = sorted(c for c in cuts if 0 < c < pos and rnd.random() < 0.7)
    out, prev = [], 0
    for c in cuts + [pos]:
        if c > prev:
            out.append(c - prev)
            prev = c
    return out or [max(pos, 1)]
