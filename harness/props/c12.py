"""
C12 - chunked transfer decoding is independent of segmentation.

 (A) TLC: MC_Sock chunked mode - every well-formed body of up to N chunks from
     a pool (data holding CR, LF, CRLF; sizes 1, 2, 3, 10 with upper/lower
     case hex), with/without the zero chunk, ALL partitions into receives
     (inside a size line, inside data, between data and CRLF, inside the CRLF),
     several bufsizes: the code-shaped decoder Dechunk (repaired form) agrees
     with the grammar-shaped RFC 9112 reference Ref (PrefixOK both ways),
     TailIsSuffix, AllDecodedAtEnd.
 (B) SockTrace.tla (envelope form) on the real SocketWrapper(encoding = chunked,
     chunked|gzip, chunked|compress, chunked|deflate): at every return,
     delivered ++ buffer is a prefix of the decoded stream and contains every
     chunk whose CRLF has arrived; per-chunk inflation is a dictionary computed
     with zlib.  Small bodies: EVERY single cut position and every pair of cut
     positions; large bodies: random and adversarial partitions.
 (C) end-to-end clause: draining the wrapper yields exactly the concatenation
     of the chunk bodies; dechunk() called directly on (tail + segment).
"""

from .. import sock_engine, sock_rec, sockdouble
from ..common import digest, rng

FINISH = dict(
    level="model_checking",
    rule="cases = wrapper executions over chunked bodies x partitions x encodings validated by TLC; distinct = digest of "
    "(wire bytes, partition, encoding); non-trivial = at least one receive boundary strictly inside the body",
)

ENCS = [1, 1 | 2, 1 | 4, 1 | 8]


def drain_calls(total, rnd):
    calls = []
    left = total
    while left > 0:
        # (at most ~120 calls for one body, ~12 for bodies of more than 8 KB: every return logs the whole public buffer, and a large body
        #  drained byte by byte gave a trace of more than 40 MB of JSON, which TLC's Json module refused)
        n = min(left, max(rnd.choice([1, 2, 3, 5, 8, 64, 1000]), total // 12 + 1 if total > 8000 else total // 120 + 1 if total > 600 else 1))
        calls.append(("read", n))
        left -= n
    return calls


def run(tier, rep):
    quick = tier == "quick"
    rep.assumptions += ["TLC 1.8", "zlib (Python) supplies the per-chunk inflate dictionary; only framing and segmentation are verified"]
    for bs in ([2, 7] if quick else [1, 2, 3, 7, 64]):
        sock_engine.mc(rep, True, bs, maxn=3, maxfail=1, maxchunks=2 if quick else 3, calls=(bs == 7))
    # the composition reader-over-chunked-wrapper (SockFramer.tla, ChunkMode): the reader over a chunked
    # body delivers what the reader over a file holding the decoded body delivers - for every cut of
    # the body into chunks and every partition of the wire bytes into receives; behaviours replayed
    from .. import decode_engine as de
    from .. import framer_engine, sockframer

    mids = framer_engine.defined_mids(de.real_bundle())
    sockframer.mc(rep, items=1 if quick else 2, bufsize=3, fails=1, mids=mids, chunked=True, allcuts=quick, heap="3g" if quick else "6g")
    sockframer.replay(rep, num=200 if quick else 3000, items=2, bufsize=3, fails=1, mids=mids, chunked=True)
    if not quick:
        sockframer.replay(rep, num=1500, items=3, bufsize=8, fails=2, mids=mids, chunked=True)
    rnd = rng("c12")
    tr = sock_engine.SockTraces(rep, True)

    def add(pieces, enc, seg, zero, kind):
        wire, datas, dec = sock_rec.chunked_body(rnd, pieces, enc, zero=zero)
        tr.inflate += [p for p in sock_rec.inflate_dict(datas, enc) if p not in tr.inflate]
        segl = seg(len(wire)) if callable(seg) else seg
        calls = drain_calls(len(dec), rnd) + [("read", 1)]
        tid, ev, res = tr.add(wire, segl, calls, enc, 4096, decoded=dec, kind=kind, cuts=len(segl))
        return tid

    # small bodies: every single cut and every pair of cuts
    small = [[b"A"], [b"\r\n"], [b"AB", b"C"], [b"0123456789", b"\r", b"xy"], [b"\n\n", b"0\r\n"]]
    for pieces in small[: (3 if quick else 5)]:
        for zero in (True, False):
            wire, _, _ = sock_rec.chunked_body(rnd, pieces, 1, zero=zero, upper=False)
            L = len(wire)
            for c in range(1, L):
                add(pieces, 1, [c, L - c], zero, "cut1")
            pairs = [(a, b) for a in range(1, L) for b in range(a + 1, L)]
            if quick:
                pairs = rnd.sample(pairs, min(len(pairs), 25))
            for a, b in pairs:
                add(pieces, 1, [a, b - a, L - b], zero, "cut2")
    # chunks whose size needs 3 / 4 hex digits; one cut at every position of every size line and terminator
    # (the four-hex-digit size line is "1fff" here: a 65535-byte body made the grammar decoder of the trace
    #  spec, which appends byte by byte, quadratic - 20 such traces took more than 20 minutes of TLC time)
    for sizes in ([4096], [255, 4097], [8191], [256, 16, 4095]) if not quick else ([4096, 17], [255, 4097]):
        pieces = [bytes(rnd.randrange(256) for _ in range(n)) for n in sizes]
        for zero in ((True, False) if not quick else (True,)):
            wire, _, _ = sock_rec.chunked_body(rnd, pieces, 1, zero=zero, upper=False)
            L = len(wire)
            pos, crit = 0, set()
            for pc_ in pieces:
                hl = len(f"{len(pc_):x}") + 2
                for c in range(pos, pos + hl + 2):
                    crit.add(c)
                end = pos + hl + len(pc_) + 2
                for c in range(end - 3, end + 1):
                    crit.add(c)
                pos = end
            for c in sorted(x for x in crit if 0 < x < L):
                wire2 = None
                tid = len(tr.traces) + 1
                segl = [c, L - c]
                wire_b, datas, dec = sock_rec.chunked_body(rnd, pieces, 1, zero=zero, upper=False)
                calls = drain_calls(len(dec), rnd) + [("read", 1)]
                tr.add(wire_b, segl, calls, 1, 70000, decoded=dec, kind="hdrcut", cuts=2)
    # compressible chunk bodies LARGER than the receive buffer size (streaming inflate territory)
    # (sweep of decoded size against bufsize for periodic bodies of several periods: where the last
    # back-reference of the compressed stream falls relative to a multiple of bufsize is data dependent)
    for enc in ENCS[1:]:
        dense = enc == ENCS[-1] or not quick
        for ul in (3, 19, 74):
            unit = bytes(rnd.randrange(256) for _ in range(ul))
            for bs, sizes in ((16, range(17, 81, 3)), (64, range(65, 300, 6)), (4096, range(4097, 4170, 8))):
                sizes = list(sizes)
                if not dense:
                    sizes = rnd.sample(sizes, 2)
                elif quick:
                    sizes = sizes[:: 2]
                for n in sizes:
                    body = (unit * (n // ul + 1))[:n]
                    pieces = [body, unit[: rnd.randint(1, ul)]]
                    wire, datas, dec = sock_rec.chunked_body(rnd, pieces, enc, zero=rnd.random() < 0.5)
                    tr.inflate += [p for p in sock_rec.inflate_dict(datas, enc) if p not in tr.inflate]
                    calls = [("read", len(dec))] if n > 1000 else drain_calls(len(dec), rnd)
                    tr.add(wire, sockdouble.segmentation(rnd, len(wire), "mixed"), calls + [("read", 1)], enc, bs, decoded=dec,
                           kind="bigdecoded", cuts=2)
    # larger bodies, all encodings, random partitions
    for i in range(30 if quick else 400):
        pieces = [bytes(rnd.choice([65, 13, 10, 0xD3, 48, rnd.randrange(256)]) for _ in range(rnd.choice([1, 2, 9, 10, 15, 16, 17, 255, 256, rnd.randint(1, 3000)])))
                  for _ in range(rnd.randint(1, 40 if not quick else 8))]
        enc = ENCS[i % 4]
        mode = rnd.choice(["small", "random", "mixed", "bytewise" if sum(map(len, pieces)) < 400 else "mixed", "all"])
        add(pieces, enc, lambda n, mode=mode: sockdouble.segmentation(rnd, n, mode), rnd.random() < 0.5, "rand")
    # raw-deflate chunks whose compressed image LOOKS like a zlib stream (first byte's low nibble 8, or
    # the first two bytes a multiple of 31 with bit 3 set): found by search, placed deterministically
    import zlib as _z

    alike = []
    for a_ in range(256):
        for b_ in range(0, 256, 5):
            body = bytes([a_, b_]) + b"RTCM3" * 3
            co = _z.compressobj(wbits=-15)
            cimg = co.compress(body) + co.flush()
            if ((cimg[0] << 8) | cimg[1]) % 31 == 0 and cimg[0] & 0x08:
                alike.append(body)
            if len(alike) >= (4 if quick else 12):
                break
        if len(alike) >= (4 if quick else 12):
            break
    for body in alike:
        add([body, b"xy"], 1 | 8, lambda n: sockdouble.segmentation(rnd, n, "mixed"), True, "zlib-alike")
    verdicts = tr.judge()
    for tid, v in verdicts.items():
        m = tr.meta[tid]
        rep.case(digest([m["data"].hex(), str(m["script"]), m["encoding"]]), nontrivial=m["cuts"] >= 2)
        facts = {"engine": "socket", "encoding": m["encoding"], "kind": m["kind"]}
        if v[0] != "accept":
            rep.reject(v[1], {**facts, "detail": str(v[3])[:60]}, tr.replay_of(tid, v))
            continue
        got = b"".join(tr.results[tid])
        if got != m["decoded"]:
            rep.reject("DrainedEqualsDecoded", facts, {**tr.replay_of(tid, v), "decoded_len": len(m["decoded"]), "got_len": len(got)})
    rep.notes["inflate_dictionary_entries"] = len(tr.inflate)
    m = tr.meta[1]
    rep.sample({"wire_hex": m["data"].hex()[:80], "recv_script": m["script"], "encoding": m["encoding"], "decoded_hex": m["decoded"].hex()[:40], "verdict": verdicts[1][1]})
