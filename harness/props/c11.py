"""
C11 - socket reads are independent of how the network segments the data.

 (A) TLC: MC_Sock plain mode - ALL sources up to N bytes over {x, CR, LF},
     ALL partitions into receives (lazy Recv(k)), bufsize 1..3 and larger,
     every sequence of read(0..3) / readline calls, a failure (timeout / OS
     error) between any two receives, peer close: PrefixOK (delivered ++
     buffer = received: nothing lost, duplicated, reordered), SizeOK,
     TimeoutKeepsData.
 (B') replay of TLC's complete plain-mode state graph (sock_replay.py): every
     edge at least once on the real SocketWrapper over a path-scripted socket,
     return values, buffer and in_waiting compared after every client call.
 (B) SockTrace.tla validation of the real SocketWrapper over a scripted
     socket.socket subclass: long mixed streams x random partitions x bufsize
     {1, 7, 512, 4096} x failures; every recv, every return value and the
     public buffer after it must be the ones the spec computes.
 (D) SockFramer.tla, the composition reader-over-wrapper: TLC exhaustive over
     every source of up to 2-3 items x every partition x timeouts at item
     boundaries x options (the reader over the wrapper delivers what the reader
     over a file delivers); TLC-simulated behaviours of the same module are
     replayed on the real RTCMReader over the real SocketWrapper and the
     observable outputs compared (sockframer.py).
 (C) segmentation independence on the real code: the same stream and call
     sequence under different partitions gives identical results; the reader
     over a socket (auto-wrapped) delivers the same messages as over a file
     holding the same bytes (CRLF-terminated NMEA, fault-free receives).
"""

import io

from .. import decode_engine as de
from .. import gen_streams, sock_engine, sockdouble, stream_corpus
from ..common import digest, rng

FINISH = dict(
    level="model_checking",
    rule="cases = wrapper executions (stream x partition x bufsize x call sequence x failures) validated by TLC; "
    "distinct = digest of (stream, script, calls, bufsize); non-trivial = at least 3 receives and 2 client calls",
)


def run(tier, rep):
    quick = tier == "quick"
    rep.assumptions += ["TLC 1.8", "recv() returns at most bufsize bytes (socket contract)"]
    for bs in ([1, 3] if quick else [1, 2, 3, 8]):
        sock_engine.mc(rep, False, bs, maxlen=4 if quick else 6, maxn=3, maxfail=1, calls=True)
    # (B') every edge of the plain-mode state graph through the real SocketWrapper
    from .. import sock_replay

    sock_replay.replay_graph(rep, bufsize=2, maxlen=3 if quick else 4)
    if not quick:
        sock_replay.replay_graph(rep, bufsize=1, maxlen=3)
        sock_replay.replay_graph(rep, bufsize=3, maxlen=4)
    rnd = rng("c11")
    bundle = de.real_bundle()
    # (D) the composition reader-over-wrapper (SockFramer.tla): exhaustive TLC + behaviours replayed on the real code
    from .. import framer_engine, sockframer

    mids = framer_engine.defined_mids(bundle)
    sockframer.mc(rep, items=2 if quick else 3, bufsize=3 if quick else 4, fails=1 if quick else 2, mids=mids, heap="3g" if quick else "6g")
    sockframer.replay(rep, num=300 if quick else 4000, items=3, bufsize=3, fails=2, mids=mids)
    if not quick:
        sockframer.replay(rep, num=2000, items=4, bufsize=1, fails=2, mids=mids)
        sockframer.replay(rep, num=2000, items=4, bufsize=7, fails=3, mids=mids)
    pool = stream_corpus.payload_pool(bundle, "c11", 60)
    tr = sock_engine.SockTraces(rep, False)
    n = 40 if quick else 400
    groups = []
    for i in range(n):
        if i % 2:
            data, _ = gen_streams.mixed_stream(rnd, pool, rnd.randint(2, 10), well_formed=True, crlf_only=True)
        else:
            data = bytes(rnd.choice([65, 66, 13, 10, 13, 10, 0xD3, rnd.randrange(256)]) for _ in range(rnd.randint(0, 300)))
        calls = [("read", rnd.choice([0, 1, 1, 2, 3, 4, 16, 100, 1000])) if rnd.random() < 0.75 else ("readline",) for _ in range(rnd.randint(2, 25))]
        g = []
        for variant in range(2):
            seg = sockdouble.segmentation(rnd, len(data), rnd.choice(["small", "all", "bytewise", "random", "mixed"]))
            script = list(seg)
            withfail = variant == 1 and rnd.random() < 0.6
            if withfail:
                for _ in range(rnd.randint(1, 3)):
                    script.insert(rnd.randrange(len(script) + 1), rnd.choice(["timeout", "oserror"]))
            tid, ev, res = tr.add(data, script, calls, 0, rnd.choice([1, 7, 512, 4096]), withfail=withfail, nrecv=len(script), ncalls=len(calls))
            g.append(tid)
        groups.append(g)
    # large but legal: a single read served by more than a thousand receives
    data = bytes(rnd.randrange(256) for _ in range(2600))
    tr.add(data, [1] * 2600, [("read", 1200), ("read", 1029), ("read", 300)], 0, 1, withfail=False, nrecv=2600, ncalls=3)
    tr.add(data, [2] * 1300, [("read", 2500)], 0, 4096, withfail=False, nrecv=1300, ncalls=1)
    verdicts = tr.judge(always_env=True)
    for tid, v in verdicts.items():
        m = tr.meta[tid]
        rep.case(digest([m["data"].hex(), str(m["script"]), str(m["calls"]), m["bufsize"]]), nontrivial=m["nrecv"] >= 3 and m["ncalls"] >= 2)
        if v[0] != "accept":
            rep.reject(v[1], {"engine": "socket", "bufsize": m["bufsize"], "withfail": m["withfail"], "detail": str(v[3])[:60]}, tr.replay_of(tid, v))
    # segmentation independence (fault-free variants only)
    for g in groups:
        a, b = g
        if not tr.meta[b]["withfail"] and tr.results[a] != tr.results[b]:
            rep.reject("SegIndependent", {"engine": "socket"}, {**tr.replay_of(b, verdicts[b]), "other_script": tr.meta[a]["script"]})
    # reader over socket = reader over file
    from pyrtcm import RTCMReader

    for i in range(12 if quick else 120):
        data, items = gen_streams.mixed_stream(rnd, pool, rnd.randint(3, 14), well_formed=True, crlf_only=True)
        seg = sockdouble.critical_segmentation(rnd, [it[1] for it in items]) if i % 2 else sockdouble.segmentation(rnd, len(data), rnd.choice(["small", "all", "random", "mixed"]))
        sock = sockdouble.ScriptedSocket(data, seg)
        try:
            got_s = [(bytes(r), str(p)) for r, p in RTCMReader(sock, bufsize=rnd.choice([7, 512, 4096, 4096]), quitonerror=0)]
        finally:
            sock.close()
        got_f = [(bytes(r), str(p)) for r, p in RTCMReader(io.BytesIO(data), quitonerror=0)]
        rep.case(digest([data.hex(), str(seg), "reader"]))
        if got_s != got_f:
            rep.reject("SocketEqualsFile", {"engine": "socket+framer"}, {"stream_hex": data.hex(), "recv_script": seg, "file_frames": len(got_f), "socket_frames": len(got_s)})
    # timeouts / OS errors exactly at item boundaries: nothing is buffered, nothing may be lost -
    # the client reads again after (None, None) and must get every remaining message
    for i in range(10 if quick else 80):
        data, items = gen_streams.mixed_stream(rnd, pool, rnd.randint(3, 9), well_formed=True, crlf_only=True)
        script = []
        for it in items:
            if rnd.random() < 0.4:
                script.append(rnd.choice(["timeout", "oserror"]))
            script.append(len(it[1]))
        sock = sockdouble.ScriptedSocket(data, script)
        got_s = []
        try:
            rd = RTCMReader(sock, bufsize=4096, quitonerror=0)
            for _ in range(len(script) + 3):
                r, p = rd.read()
                if r is not None:
                    got_s.append((bytes(r), str(p)))
                elif sock.drained:
                    break
        except Exception as err:  # pylint: disable=broad-except
            # a failed receive is a short read, never an exception out of the reader
            got_s.append((b"<exception>", type(err).__name__))
        finally:
            sock.close()
        got_f = [(bytes(r), str(p)) for r, p in RTCMReader(io.BytesIO(data), quitonerror=0)]
        rep.case(digest([data.hex(), str(script), "boundary-timeouts"]))
        if got_s != got_f:
            rep.reject("SocketEqualsFile", {"engine": "socket+framer", "segmentation": "timeouts-at-boundaries"},
                       {"stream_hex": data.hex(), "recv_script": script, "file_frames": len(got_f), "socket_frames": len(got_s)})
    bigf = b"".join(__import__("harness.decode_rec", fromlist=["x"]).frame_of(bytes([0x7D, 0x00]) + bytes(rnd.randrange(256) for _ in range(n - 2))) for n in (30, 1023, 40, 1010, 12))
    sock = sockdouble.ScriptedSocket(bigf, [1] * len(bigf))
    try:
        got_s = [bytes(r) for r, _ in RTCMReader(sock, bufsize=1, quitonerror=2)]
    except BaseException as err:  # pylint: disable=broad-except
        got_s = [type(err).__name__]
    finally:
        sock.close()
    got_f = [bytes(r) for r, _ in RTCMReader(io.BytesIO(bigf), quitonerror=2)]
    rep.case(digest([bigf.hex(), "bytewise"]))
    if got_s != got_f:
        rep.reject("SocketEqualsFile", {"engine": "socket+framer", "segmentation": "bytewise"}, {"stream_len": len(bigf), "file_frames": len(got_f), "socket_result": [x if isinstance(x, str) else len(x) for x in got_s]})
    m = tr.meta[1]
    rep.sample({"stream_len": len(m["data"]), "recv_script": m["script"][:12], "calls": [list(c) for c in m["calls"][:8]], "bufsize": m["bufsize"],
                "results": [r.hex()[:20] for r in tr.results[1][:8]], "verdict": verdicts[1][1]})
