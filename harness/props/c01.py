"""
C01 - the reader delivers only intact, exactly delimited RTCM3 frames.

 (A) TLC: MC_Framer, bytes mode - ALL streams over an 11-symbol alphabet
     (sync bytes, header bytes, LF, payload bytes of a defined and an unknown
     type) plus adaptively correct CRC bytes, EVERY placement of short and
     empty answers at every underlying read, six option combinations:
     SliceOK, CurShape, OnlyLibraryErrors, ModeDiscipline, Terminates.
 (B) replay of TLC's complete state graph (small budget) through the real
     RTCMReader over a scripted stream: every edge at least once, request
     sizes and follow-ups compared after every step (framer_replay.py).
 (C) TLC as judge (FramerTrace.tla) of recorded executions over adversarial
     streams (valid frames of real types incl. lengths 0/2/255/256/1023,
     truncated and bit-damaged frames, NMEA/UBX, noise dense in sync bytes,
     false headers) x fault schedules x stream kinds, and over the
     repository's test logs under the same faults: every request size, every
     follow-up, CRC-24Q of every delivered frame recomputed in TLA+; each
     delivered message object is judged by DecodeJudge against the payload of
     ITS slice (payload and number are the ones carried by that slice).
"""

from .. import framer_rec
from .. import decode_engine as de
from .. import framer_engine as fe
from .. import framer_replay, gen_streams, stream_corpus
from ..common import digest, rng

FINISH = dict(
    level="model_checking",
    rule="cases = recorded reader executions (stream x fault schedule x options x stream kind) validated by TLC + "
    "state-graph edges replayed; distinct = digest of (stream, faults, options); non-trivial = stream holds at least one "
    "complete frame and one foreign/damaged item",
)


def run(tier, rep):
    quick = tier == "quick"
    rep.assumptions += ["TLC 1.8", "streams answer at most the requested number of bytes (stream contract)", "Crc24q.tla pinned"]
    bundle = de.real_bundle()
    fe.mc(rep, "bytes", 10 if quick else 20, maxpay=2, optset="OptCore" if quick else "OptAll", bundle=bundle)
    framer_replay.replay_graph(rep, budget=7 if quick else 11, bundle=bundle, optset="OptCore" if quick else "OptAll")

    rnd = rng("c01")
    pool = stream_corpus.payload_pool(bundle, "c01") + stream_corpus.special_payloads(bundle, rnd) + stream_corpus.syncy_payloads(rnd, 20)
    von, voff = stream_corpus.validate_values()
    tr = fe.Traces(rep)
    n = 40 if quick else 600
    for i in range(n):
        wf = i % 3 == 0
        data, items = gen_streams.mixed_stream(rnd, pool, rnd.randint(4, 14), well_formed=wf, dmg=0.25)
        fm = rnd.choice(["none", "eof", "short", "mixed", "mixed"])
        kind = "scripted" if fm != "none" else rnd.choice(["scripted", "bytesio", "buffered", "pipe"])
        tr.add(data, kind=kind, validate=rnd.choice(von), parsed=True, quit=rnd.choice([0, 1, 2]), faults=gen_streams.faults(rnd, 80, fm), rnd=rnd,
               use_iter=bool(i % 2), nframes=sum(1 for it in items if it[0] == "frame"), nother=sum(1 for it in items if it[0] != "frame"))
    data, frames = stream_corpus.crc_target_stream(bundle, rnd, pool)
    for q in (0, 1, 2):
        tr.add(data, kind="scripted", validate=von[q % len(von)], parsed=True, quit=q, faults=None, rnd=rnd, nframes=len(frames), nother=1)
    for fn in stream_corpus.log_files():
        data = open(fn, "rb").read()
        if quick:
            data = data[:6000]
        for fm in (["none", "mixed"] if quick else ["none", "eof", "short", "mixed", "mixed"]):
            tr.add(data, kind="scripted", validate=1, parsed=True, quit=rnd.choice([0, 1, 2]), faults=gen_streams.faults(rnd, 400, fm), nframes=1, nother=1, src=fn)
    # spliced streams: a valid frame is present only as a NON-contiguous subsequence (bytes inserted
    # inside it - a wrong trailer before the right one, a false header, noise), with an empty answer
    # (timeout) at every single request position in turn and the client reading on
    from ..decode_rec import frame_of as _fo

    for si in range(3 if quick else 12):
        fa, fb = _fo(rnd.choice(pool[:30])), _fo(rnd.choice(pool[:30]))
        cutp = [len(fa) - 3, 3, rnd.randrange(4, max(5, len(fa) - 3))][si % 3]
        ins = [bytes(rnd.randrange(256) for _ in range(3)), b"\xd3\x00", bytes(rnd.randrange(256) for _ in range(rnd.randint(1, 9)))][si % 3]
        data = fb + fa[:cutp] + ins + fa[cutp:] + fb
        probe = framer_rec.ScriptedStream(data, None)
        ncalls = len(fe.Traces(rep).add(data, kind="scripted", validate=1, parsed=True, quit=0)[1])
        for ci in range(min(ncalls, 40)):
            tr.add(data, kind="scripted", validate=1, parsed=True, quit=si % 3, faults={ci: ("empty",)}, rnd=rnd, nframes=2, nother=1)
    verdicts = tr.judge(slices=True)
    corp = de.Corpus(rep, bundle)
    for tid, v in verdicts.items():
        m = tr.meta[tid]
        rep.case(digest([m["data"].hex(), str(m["faults"]), m["quit"], m["kind"]]), nontrivial=m["nframes"] > 0 and m["nother"] > 0)
        if v[0] != "accept":
            rep.reject(v[1], {"engine": "framer", "kind": m["kind"], "quit": m["quit"], "detail": str(v[3])[:60]}, tr.replay_of(tid, v))
        # every delivered object is judged against the payload of its own slice
        for raw, msg in tr.results[tid][: (6 if quick else 40)]:
            if msg is not None and len(corp.recs) < (500 if quick else 6000):
                rid, r = corp.add_message(raw[3:-3], msg, 1, lbl=False, ident="slice", tid=tid)
                if bytes(msg.payload) != bytes(raw[3:-3]):
                    rep.reject("PayloadNotOfSlice", {"engine": "framer"}, {"raw_hex": raw.hex(), "payload_hex": bytes(msg.payload).hex()})
    # one frame for EVERY 12-bit message number (payload of 70 bytes, long enough for any aliasing of a
    # short layout): the object delivered with a slice carries the slice's own message number
    import io as _io

    from pyrtcm import RTCMReader as _RR

    nums = list(range(4096))
    allnum = b"".join(_fo(bytes([n >> 4, (n & 0xF) << 4 | rnd.randrange(16)]) + bytes(rnd.randrange(256) for _ in range(68))) for n in nums)
    ndel = 0
    def _guarded(it):
        try:
            yield from it
        except Exception as err:  # pylint: disable=broad-except
            rep.reject("ForeignException", {"engine": "framer", "what": "all-numbers stream"}, {"exception": type(err).__name__, "detail": str(err)[:200]})

    for raw, msg in _guarded(_RR(_io.BytesIO(allnum), quitonerror=0)):
        ndel += 1
        num_in_slice = (raw[3] << 4) | (raw[4] >> 4)
        rep.case(digest(["allnum", num_in_slice]))
        ident_txt = str(msg.identity)
        if ident_txt.split("_")[0] != str(num_in_slice) or bytes(msg.payload) != bytes(raw[3:-3]):
            rep.reject("PayloadNotOfSlice", {"engine": "framer", "what": "message number"},
                       {"raw_hex": raw.hex(), "number_in_slice": num_in_slice, "identity": ident_txt})
        elif num_in_slice % 64 == 63 or ndel % 97 == 0:
            corp.add_message(raw[3:-3], msg, 1, lbl=False, ident="slice", tid=0)      # a sample goes to the judge as well
    rep.notes["all_message_numbers_stream"] = {"frames": len(nums), "delivered": ndel}
    fe.composition(rep, tr, verdicts, corp, limit=150 if quick else 1500)
    dv = corp.judge()
    for r in corp.recs:
        v = dv[r["rid"]]
        if v[0] != "accept":
            rep.reject("Slice:" + v[1], {"engine": "framer+decode", "via": r["via"]}, de.replay_of(r, corp.meta[r["rid"]], v))
    rep.notes["delivered_objects_judged"] = len(corp.recs)
    t = tr.traces[0]
    rep.sample({"options": {"validate": 1, "parsed": True, "quit": t["quit"]}, "events": [
        {"op": e["op"], "n": e["n"], "got": len(e["data"]), "then": e["then"]} for e in t["ev"][:14]], "verdict": verdicts[1][1]})
