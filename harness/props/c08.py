"""
C08 - CRC-24Q is computed correctly and all guaranteed-detectable damage is rejected.

 (A) TLC: MC_Crc - the algebra of the pinned CRC-24Q (Crc24q.tla, generator
     0x1864CFB, MSB first, zero init, no final XOR): table form = bit-serial
     form; zero remainder over message ++ CRC and linearity for ALL message
     pairs up to L bytes over 4 symbols; generator has degree 24, constant term
     1 (=> every burst <= 24 bits detected) and even weight (=> factor x+1 =>
     every odd-weight error detected); the LFSR behaviour x^d mod g for
     d = 0..D (D >= 8232 = longest frame in bits): never 0 (every 1-bit error
     detected) and never 1 for d >= 1 (every 2-bit error at any distance inside
     a frame detected).  The behaviour also yields the table X[d].
 (B) the real calc_crc24q / crc2bytes judged by TLC (CrcJudge.tla) on the
     empty string, every single byte, random messages of all length classes up
     to 1029 bytes; and against X[d] for EVERY single-bit message of the
     maximal length (with linearity samples this pins a linear implementation
     on all inputs).
 (C) the static parser on valid frames altered by: every 1-bit error (all
     positions), 2-bit errors (all pairs for short frames, sampled incl.
     maximal distance for 1029 bytes), odd-weight patterns, every burst length
     2..24: must raise RTCMParseError (the lemmas of (A) give the verdict; a
     sample is additionally re-judged with the CRC recomputed in TLA+ by
     DecodeJudge); with validate = 0 the result must be the parse of the
     payload whenever only CRC bytes were touched (DecodeJudge).
"""

import json
import os

from .. import common, decode_engine as de
from .. import gen_messages, tlc
from ..common import MachineryFailure, digest, rng
from ..decode_rec import frame_of

FINISH = dict(
    level="model_checking",
    rule="cases = checksum computations judged by TLC + damaged frames whose rejection follows from the TLC-checked lemmas; "
    "distinct = digest of (message / frame, error pattern); non-trivial = non-empty message or non-zero error pattern",
)

MC_CFG = """SPECIFICATION Spec
CONSTANTS Mode = "%s"
 Sym = {0, 1, 211, 255}
 MaxLen = %d
 MaxD = %d
INVARIANT ZeroRemainder
INVARIANT Linear
INVARIANT TableIsBitwise
INVARIANT Range
INVARIANT NonZero
INVARIANT NoShortPeriod
CHECK_DEADLOCK FALSE
"""

JCFG = "SPECIFICATION Spec\nCHECK_DEADLOCK FALSE\n"


def run(tier, rep):
    quick = tier == "quick"
    rep.assumptions += ["TLC 1.8 + CommunityModules Bitwise", "the burst / odd-weight detection arguments are recorded in MC_Crc.tla; TLC checks their premises"]
    from pyrtcm import RTCMReader
    from pyrtcm.exceptions import RTCMParseError
    from pyrtcm.rtcmhelpers import calc_crc24q, crc2bytes

    res = tlc.run("MC_Crc", MC_CFG % ("alg", 4 if quick else 5, 0), workers=8, heap="2g")
    tlc.must_ok(res, "MC_Crc alg")
    rep.add_tlc(res)
    maxd = 8256 if quick else 70000
    res = tlc.run("MC_Crc", MC_CFG % ("lfsr", 0, maxd), workers=1, heap="1g")
    tlc.must_ok(res, "MC_Crc lfsr")
    rep.add_tlc(res)
    xd = {t[1]: t[2] for t in res.tuples("XD")}
    if len(xd) < maxd:
        raise MachineryFailure(f"LFSR table incomplete: {len(xd)}")
    rep.notes["lfsr_max_distance"] = maxd

    rnd = rng("c08")

    def guarded(f, *a):
        try:
            return f(*a), None
        except BaseException as err:  # pylint: disable=broad-except
            return None, type(err).__name__

    # (B1) every single-bit message of the maximal frame length against X[d]
    nmax = 1029
    nbad = 0
    for bit in range(nmax * 8):
        m = bytearray(nmax)
        m[bit // 8] = 0x80 >> (bit % 8)
        d = (nmax * 8 - 1 - bit) + 24          # remainder of x^(k+24): the message is shifted by 24 bits
        got, exc = guarded(calc_crc24q, bytes(m))
        rep.case(digest(["bit", bit]))
        if got != xd[d] and nbad < 5:
            nbad += 1
            rep.reject("SingleBitRemainder", {"engine": "crc", "bit": bit}, {"message": f"single 1 bit at bit {bit} of {nmax} zero bytes", "expected": xd[d], "observed": got, "exception": exc})
    # linearity samples on the real function (with B1 this pins a linear implementation)
    for _ in range(50 if quick else 500):
        n = rnd.choice([1, 2, 3, 17, 255, 1029])
        a = bytes(rnd.randrange(256) for _ in range(n))
        b = bytes(rnd.randrange(256) for _ in range(n))
        x = bytes(p ^ q for p, q in zip(a, b))
        ca, cb, cx = calc_crc24q(a), calc_crc24q(b), calc_crc24q(x)
        rep.case(digest(["lin", a.hex(), b.hex()]))
        if cx != ca ^ cb:
            rep.reject("Linearity", {"engine": "crc", "len": n}, {"a": a.hex(), "b": b.hex()})
    # (B2) TLC judges the real helpers
    msgs = [b""] + [bytes([i]) for i in range(256)]
    lens = [2, 3, 4, 5, 6, 7, 8, 9, 15, 16, 17, 31, 32, 33, 255, 256, 257, 511, 512, 1023, 1024, 1028, 1029]
    for n in lens:
        msgs.append(bytes(rnd.randrange(256) for _ in range(n)))
    for rep_i in range(1 if quick else 3):          # EVERY length 0..1029
        for n in range(1030):
            msgs.append(bytes(rnd.randrange(256) for _ in range(n)))
    msgs += [b"\x00" * 40, b"\xff" * 40, b"\xd3\x00\x00"]
    # messages built to have boundary remainders (all ones, top bit only, one, ...)
    from .. import gen_crc

    for target in (0xFFFFFF, 0x000000, 0x000001, 0x800000, 0x7FFFFF, 0xFFFFFE, 0x864CFB, 0x1000, 0xFF0000, 0x00FFFF):
        for n in (0, 1, 7, 100, 1026):
            pre = bytes(rnd.randrange(256) for _ in range(n))
            msgs.append(pre + gen_crc.solve_tail(pre, target))
    recs = []
    for i, m in enumerate(msgs, 1):
        c, e1 = guarded(calc_crc24q, m)
        b3, e2 = guarded(crc2bytes, m)
        recs.append({"rid": i, "m": list(m), "crc": c if isinstance(c, int) and 0 <= c < 2**31 else -1, "b3": list(b3) if isinstance(b3, (bytes, bytearray)) else []})
    nsh = 16
    jobs = []
    for s in range(nsh):
        part = recs[s::nsh]
        if not part:
            continue
        path = os.path.join(common.scratch(), f"crc-{s}.json")
        json.dump(part, open(path, "w"))
        jobs.append(dict(module="CrcJudge", cfg=JCFG, env={"VERIF_RECORDS": path}, heap="512m"))
    verd = {}
    for r in tlc.run_many(jobs):
        tlc.must_ok(r, "CrcJudge")
        rep.add_tlc(r)
        for t in r.tuples("CVERDICT"):
            verd[t[1]] = t
    if len(verd) != len(recs):
        raise MachineryFailure("CrcJudge: missing verdicts")
    rep.count("traces_validated_against_impl", len(recs))
    for r in recs:
        t = verd[r["rid"]]
        rep.case(digest(["msg", bytes(r["m"]).hex()]), nontrivial=len(r["m"]) > 0)
        if t[2] != "accept":
            rep.reject(t[3], {"engine": "crc", "len": len(r["m"])}, {"message_hex": bytes(r["m"]).hex(), "spec_crc": t[4], "observed_crc": r["crc"], "observed_bytes": r["b3"]})

    # (C) damaged frames through the static parser
    bundle = de.real_bundle()
    pool = [pl for _, _, pl, _ in gen_messages.corpus(bundle, "c08", per_ident=1)]
    corp = de.Corpus(rep, bundle)
    frames = [frame_of(p) for p in (pool[:3] + [bytes([0x3E, 0xD0]) + bytes(4), b"", b"\x3e", bytes([0x3E, 0xD0])])]   # incl. the 6-, 7- and 8-byte frames
    big = frame_of(bytes([0x7D, 0x00]) + bytes(rnd.randrange(256) for _ in range(1021)))   # 1029-byte frame, unknown type 2000
    nrej = 0

    from .. import stream_corpus

    von, _voff = stream_corpus.validate_values()      # every exported flag combination that has the checksum bit

    def must_reject(fr, pattern_desc, judge=False):
        nonlocal nrej
        rep.case(digest(["dmg", fr.hex()]))
        vv = von[len(fr) % len(von)] if len(pattern_desc) % 2 else von[0]
        try:
            RTCMReader.parse(fr, validate=vv)
            out = "accepted"
        except RTCMParseError:
            out = None
        except BaseException as err:  # pylint: disable=broad-except
            out = "raised " + type(err).__name__
        if out and nrej < 10:
            nrej += 1
            rep.reject("DamageNotRejected", {"engine": "crc", "pattern": pattern_desc.split(":")[0]}, {"frame_hex": fr.hex(), "pattern": pattern_desc, "outcome": out})
        if judge:
            corp.add(None, 1, via="parse", frame=fr, validate=vv, lbl=False, ident="damaged", kind=pattern_desc)

    def flip(fr, bits):
        b = bytearray(fr)
        for p in bits:
            b[p // 8] ^= 0x80 >> (p % 8)
        return bytes(b)

    for fr in frames + [big]:
        # a reader sees the intact frame first and damaged copies later: parse it (validation on)
        try:
            RTCMReader.parse(fr, validate=1)
            RTCMReader.parse(fr, validate=1, labelmsm=2)
        except BaseException:  # pylint: disable=broad-except
            pass
    for fr in frames:
        nb = len(fr) * 8
        for p in range(nb):                                   # every 1-bit error
            must_reject(flip(fr, [p]), f"bit1:{p}", judge=(p % 37 == 0))
        pairs = [(a, b) for a in range(nb) for b in range(a + 1, nb)]
        if len(pairs) > (3000 if quick else 40000):
            pairs = rnd.sample(pairs, 3000 if quick else 40000)
        for a, b in pairs:                                    # 2-bit errors
            must_reject(flip(fr, [a, b]), f"bit2:{a},{b}")
        for _ in range(200 if quick else 3000):               # odd weight
            k = rnd.choice([3, 5, 7, 9, 21])
            must_reject(flip(fr, rnd.sample(range(nb), min(k, nb if nb % 2 else nb - 1))), f"odd:{k}")
        for ln in range(2, 25):                               # bursts
            for start in {0, 1, 7, 8, nb - ln, (nb - ln) // 2, rnd.randrange(nb - ln + 1)}:
                pat = [start, start + ln - 1] + [start + i for i in range(1, ln - 1) if rnd.random() < 0.5]
                must_reject(flip(fr, pat), f"burst:{ln}@{start}", judge=(ln % 6 == 0))
    nb = len(big) * 8
    for p in (range(0, nb, 5) if quick else range(nb)):
        must_reject(flip(big, [p]), f"bit1:{p}")
    for _ in range(300 if quick else 5000):
        a, b = sorted(rnd.sample(range(nb), 2))
        must_reject(flip(big, [a, b]), f"bit2:{a},{b}")
    must_reject(flip(big, [0, nb - 1]), "bit2:maxdist", judge=True)
    for ln in range(2, 25):
        must_reject(flip(big, [nb - ln, nb - 1]), f"burst:{ln}@end")
    # damage confined to the 24-bit trailer (a burst <= 24 bits) chosen so that the syndrome of the
    # damaged frame is a boundary value (all ones, one, top bit ...)
    for fr in frames + [big]:
        for target in (0xFFFFFF, 0x000001, 0x800000, 0x7FFFFF, 0xFFFFFE, 0x864CFB, 0xFF0000):
            must_reject(fr[:-3] + gen_crc.solve_tail(fr[:-3], target), f"syndrome:{target:06x}", judge=True)
    # every value of every trailer byte: a wrong trailer is a burst of at most 24 bits, whatever its
    # value - so each of the three CRC bytes takes each of its 256 values in some damaged frame
    for fr in frames[:2] + [big]:
        for posn in (-3, -2, -1):
            for v in range(256):
                tail = bytearray(rnd.randrange(256) for _ in range(3))
                tail[posn] = v
                if bytes(tail) == fr[-3:]:
                    tail[(posn + 4) % 3 - 3] ^= 0x10
                must_reject(fr[:-3] + bytes(tail), f"trailer-byte:{posn}={v:02x}", judge=(v % 64 == 0x1A))
    # and every value of every HEADER byte position / first payload bytes reached by a single-byte
    # error (a burst of 8 bits): the byte is replaced by each other value
    for fr in frames[:1]:
        for posn in (0, 1, 2, 3, 4, len(fr) // 2):
            for v in range(256):
                if v != fr[posn]:
                    must_reject(fr[:posn] + bytes([v]) + fr[posn + 1:], f"byte:{posn}={v:02x}")
    # frames that embed a shorter, checksum-consistent frame: clearing length bits (a 1- or 2-bit
    # error in the header) must still be rejected - the checksum is over the WHOLE buffer
    def nested(len1, len2):
        inner = bytes([0x3E, 0xD0]) + bytes(rnd.randrange(256) for _ in range(len2 - 2))
        body2 = b"\xd3" + len2.to_bytes(2, "big") + inner
        c2 = 0
        from ..decode_rec import crc24q
        pl = inner + crc24q(body2).to_bytes(3, "big")
        pl += bytes(rnd.randrange(256) for _ in range(len1 - len(pl)))
        return frame_of(pl)

    for bit in range(10):
        for len2 in (19, 40, 2, 100 + bit, 300, 511):
            len1 = len2 | (1 << bit)
            if len1 == len2 or len1 < len2 + 3 or len1 > 1023:
                continue
            fr = bytearray(nested(len1, len2))
            fr[1], fr[2] = len2 >> 8, len2 & 0xFF           # the damage: one length bit cleared
            must_reject(bytes(fr), f"lenbit1:{len1}->{len2}", judge=True)
    for a in range(10):
        for b in range(a + 1, 10):
            len2 = 20 + a
            len2 &= ~((1 << a) | (1 << b))
            len2 = max(len2, 2)
            len1 = len2 | (1 << a) | (1 << b)
            if len1 >= len2 + 3 and len1 <= 1023:
                fr = bytearray(nested(len1, len2))
                fr[1], fr[2] = len2 >> 8, len2 & 0xFF
                must_reject(bytes(fr), f"lenbit2:{len1}->{len2}", judge=(a + b) % 3 == 0)
    # validate = 0: the checksum bytes do not influence the result
    for pl in pool[: (20 if quick else 150)]:
        fr = bytearray(frame_of(pl))
        for k in (1, 2, 3):
            fr[-k] ^= rnd.randrange(1, 256)
        corp.add(None, 1, via="parse", frame=bytes(fr), validate=0, lbl=False, ident="crc-touched", kind="validate0")
    dv = corp.judge()
    for r in corp.recs:
        v = dv[r["rid"]]
        kind = corp.meta[r["rid"]]["kind"]
        if v[0] != "accept":
            rep.reject(v[1], {"engine": "crc+decode", "kind": kind.split(":")[0]}, de.replay_of(r, corp.meta[r["rid"]], v))
        elif kind == "validate0" and v[1] not in ("Message", "Stub"):
            rep.reject("ValidateOffInfluenced", {"engine": "crc+decode"}, de.replay_of(r, corp.meta[r["rid"]], v))
        elif kind != "validate0" and v[1] != "CrcRejected":
            rep.reject("DamageNotRejected", {"engine": "crc+decode", "pattern": kind.split(":")[0]}, de.replay_of(r, corp.meta[r["rid"]], v))
    rep.sample({"message_hex": bytes(recs[300]["m"]).hex()[:60], "calc_crc24q": recs[300]["crc"], "tlc_crc": verd[recs[300]["rid"]][4]})
    rep.sample({"single_bit_messages_checked_against_lfsr_table": nmax * 8, "damaged_frames": rep.cov["evaluations"]})
