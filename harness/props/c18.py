"""
C18 - MSM and harmonic-coefficient array helpers agree with the flat attributes.

 Specification (Message.tla): the expected helper output is DERIVED from the
 specification's own attribute list of the same payload - satellite entry i =
 the attributes of the groups counted by NSat with index i, cell entry k
 likewise for NCell, epoch = the constellation's epoch field, layer l of
 4076_201 = IDF036_l and the IDF039_l_* / IDF040_l_* in order; for every other
 identity (non-MSM, unknown, numbers merely RESERVED for MSM) both helpers
 return nothing and never raise.
 (A) TLC: MC_DecodeMini incl. the mini MSM and mini 4076_201 definitions
     (group tags cg / ix of the attributes are what the derivation uses).
 (B) parse_msm on all 49 MSM identities x mask shapes, parse_4076_201 on
     4076_201 messages with 1..4 layers and degree/order 0..15 (153
     coefficients: three-digit indices), both helpers on one message of every
     other identity, on every reserved MSM number and on unknown numbers -
     projected helper output judged by DecodeJudge.tla.
"""

from .. import decode_engine as de
from .. import gen_messages, message_rec, msm_corpus
from ..common import digest, rng

FINISH = dict(
    level="model_checking",
    rule="cases = (message, helper) calls judged by TLC against the derivation from the spec's attribute list; "
    "distinct = payload digest; non-trivial = MSM with >=1 satellite, 4076_201, or a reserved/unknown number",
)


def reserved_msm_numbers(bundle):
    impl = {int(i) for i, t in bundle["table"].items() if t == "msm"}
    return [n for n in range(1070, 1230) if n not in impl]


def run(tier, rep):
    quick = tier == "quick"
    rep.assumptions += ["TLC 1.8", "epoch fields pinned: GPS/SBAS DF004, GLONASS DF034, Galileo DF248, QZSS DF428, BeiDou DF427, NavIC DF546"]
    de.mc_mini(rep, 8 if quick else 12, liveness=False)
    corp = de.Corpus(rep)
    from pyrtcm.rtcmtypes_core import RTCM_DATA_FIELDS as fields  # noqa: N811

    rnd = rng("c18")
    both = ("parse_msm", "parse_4076_201")

    def add(pl, ident, kind, lab=1):
        rid, r, msg = corp.add(pl, lab, keep_msg=True, ident=ident, kind=kind)
        if msg is not None:
            r["ops"] = [message_rec.do_op(msg, op, fields, labelmsm=lab) for op in both]
        return r

    msm = msm_corpus.build_all(corp.bundle, "c18", quick)
    if quick:
        msm = [c for c in msm if rnd.random() < 0.5]
    for ident, shape, pl, enc in msm:
        add(pl, ident, "msm:" + shape, rnd.choice([1, 2]))
    # 4076_201: layers x degree x order
    combos = [(l, n, m) for l in range(4) for n in range(16) for m in range(16)]
    rnd.shuffle(combos)
    must = [(0, 15, 15), (3, 15, 15), (0, 0, 0), (1, 13, 13), (2, 14, 3), (1, 2, 9)]
    for l, n, m in must + combos[: (25 if quick else 250)]:
        ov = {"IDF035": l}
        vals = {"*": "random"}
        for i in range(1, l + 2):
            ov[f"IDF037_{i:02d}"] = n
            ov[f"IDF038_{i:02d}"] = m
        pl, enc = gen_messages.build("4076_201", corp.bundle, rnd, values=vals, count="typ", overrides=ov)
        if pl is not None:
            add(pl, "4076_201", f"harm:{l + 1}x{n + 1}x{m + 1}")
    # zero-valued fields (a value the helper might mistake for "absent"): layer heights of 0, all-zero
    # coefficient sets, whole messages of zeros; and extreme values
    for l in range(4):
        for zero_at in range(1, l + 2):
            ov = {"IDF035": l, f"IDF036_{zero_at:02d}": 0}
            for i in range(1, l + 2):
                ov[f"IDF037_{i:02d}"] = rnd.choice([0, 1, 3])
                ov[f"IDF038_{i:02d}"] = rnd.choice([0, 1, 2])
            pl, enc = gen_messages.build("4076_201", corp.bundle, rnd, values={"*": "random"}, count="typ", overrides=ov)
            if pl is not None:
                add(pl, "4076_201", f"harm:zero-height@{zero_at}/{l + 1}")
    for prof in ("zero", "max", "min"):
        for ov in ({"IDF035": 0}, {"IDF035": 2}):
            try:
                pl, enc = gen_messages.build("4076_201", corp.bundle, rnd, values=prof, count="typ", overrides=ov)
            except Exception:  # pylint: disable=broad-except
                pl = None
            if pl is not None:
                add(pl, "4076_201", f"harm:{prof}")
        for ident in ("1074", "1087", "1127"):
            try:
                pl, enc = gen_messages.build(ident, corp.bundle, rnd, values=prof, count="typ", mask="dense")
            except Exception:  # pylint: disable=broad-except
                pl = None
            if pl is not None:
                add(pl, ident, f"msm:{prof}")
    # every other identity
    others = [i for i, t in corp.bundle["table"].items() if t != "msm" and i != "4076_201"]
    for ident, pn, pl, enc in gen_messages.corpus(corp.bundle, "c18o", per_ident=1, idents=sorted(others)):
        add(pl, ident, "other")
    # reserved MSM numbers and unknown numbers (stubs)
    for n in reserved_msm_numbers(corp.bundle) + [0, 1, 999, 1069, 1230 + 1, 2000, 4075, 4095]:
        pl = bytes([n >> 4, (n & 0xF) << 4 | rnd.randrange(16)]) + bytes(rnd.randrange(256) for _ in range(rnd.choice([0, 6, 30])))
        add(pl, str(n), "reserved" if 1070 <= n <= 1229 else "unknown")
    add(bytes([0xFE, 0xC0 | 1, 200 << 1 & 0xFF, 0, 0]), "4076_200", "unknown")
    verdicts = corp.judge()
    for r in corp.recs:
        v = verdicts[r["rid"]]
        meta = corp.meta[r["rid"]]
        rep.case(digest(bytes(r["p"])), nontrivial=True)
        if v[0] != "accept":
            f = {"engine": "helper", "ident": meta["ident"], "kind": meta["kind"].split(":")[0]}
            if isinstance(v[2], list) and v[2]:
                f["helper"] = str(v[2][0])
                if len(v[2]) > 1:
                    f["raised"] = str(v[2][1])
            rep.reject(v[1], f, de.replay_of(r, meta, v))
    rep.notes["reserved_msm_numbers"] = len(reserved_msm_numbers(corp.bundle))
    r = next(r for r in corp.recs if corp.meta[r["rid"]]["kind"].startswith("harm"))
    o = r["ops"][1]
    rep.sample({"ident": "4076_201", "kind": corp.meta[r["rid"]]["kind"], "layers": len(o["layers"]),
                "ncos": [len(x["cos"]) for x in o["layers"]], "nsin": [len(x["sin"]) for x in o["layers"]]})
