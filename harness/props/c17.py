"""
C17 - reader options have only their documented effect.

 In Framer.tla the size of every request (Need) is a function of (pc, cur)
 only - no option occurs in it - and the options act at exactly two places:
 `parsed` decides whether Complete() looks at the frame at all, `validate`
 whether the CRC is tested; so "no option changes how many bytes are taken"
 is structural in the specification, and the code is held to it:
 (A) TLC: MC_Framer bytes + items mode (with wrong-checksum frames) over ALL
     12 combinations of validate x parsed x error mode.
 (B) one stream (valid frames, wrong-checksum frames, foreign items), run
     under all 2x2x3 combinations (x label option): each run is validated by
     FramerTrace.tla with ITS options; cross-run clauses on the real runs:
     IoIndependentOfOptions (identical request sequence whatever the
     options), ParsedOffSameRaw (same raw frames, same order, parsed None),
     ValidateOffDecodesSame (a wrong-CRC frame under validate=0 yields the
     message of its payload - judged by DecodeJudge against the payload).
 (C) the static parser: parse(frame with wrong CRC, validate=0) judged by
     DecodeJudge; equals parse(same payload, right CRC).
"""

from .. import decode_engine as de
from .. import framer_engine as fe
from .. import gen_streams, stream_corpus
from ..common import digest, rng
from ..decode_rec import frame_of

FINISH = dict(
    level="model_checking",
    rule="cases = reader executions (stream x 12 option combinations x label option) validated by TLC; "
    "distinct = digest of (stream, options); non-trivial = stream with valid, wrong-checksum and foreign items",
)


def wrong_crc(rnd, fr):
    b = bytearray(fr)
    b[-rnd.randint(1, 3)] ^= 1 << rnd.randrange(8)
    return bytes(b)


def run(tier, rep):
    quick = tier == "quick"
    rep.assumptions += ["TLC 1.8"]
    bundle = de.real_bundle()
    fe.mc(rep, "bytes", 7 if quick else 16, maxpay=1, optset="OptAll", bundle=bundle, liveness=False)
    fe.mc(rep, "items", 2 if quick else 5, maxpay=1, damage=True, optset="OptAll", bundle=bundle, liveness=False)
    rnd = rng("c17")
    pool = stream_corpus.payload_pool(bundle, "c17", 80)
    from .. import msm_corpus

    from .. import gen_messages

    bigpool = []
    for ident in ("1004", "1012", "1077", "1097", "1127", "4076_201", "1029", "4076_026"):
        if ident in bundle["defs"]:
            bp, _ = gen_messages.build(ident, bundle, rnd, values="random", count="max", mask="dense")
            if bp and len(bp) > 300:
                bigpool.append(bp)
    bigpool.append(bytes([0x7D, 0x00]) + bytes(rnd.randrange(256) for _ in range(1021)))
    bigpool.append(bytes([0x7D, 0x10]) + bytes(rnd.randrange(256) for _ in range(998)))
    msm_all = msm_corpus.build_all(bundle, "c17", True)
    msmpool = [pl for _, shape, pl, enc in msm_all if shape in ("manysat", "dense", "random") and enc.ints.get("NCell", 0) > 0 and len(pl) < 500]
    edgepool = [pl for _, shape, pl, enc in msm_all if shape in ("lastslots", "emptycell", "emptysig", "lastcell")]   # satellite 64 / signal 32, no cells
    tr = fe.Traces(rep)
    corp = de.Corpus(rep, bundle)
    combos = [(v, p, q) for v in (0, 1) for p in (True, False) for q in (0, 1, 2)]
    groups = []
    for s in range(4 if quick else 60):
        items = []
        for _ in range(rnd.randint(4, 10)):
            r = rnd.random()
            x = rnd.random()
            pl = rnd.choice(msmpool) if x < 0.3 else rnd.choice(bigpool) if x < 0.45 else rnd.choice(pool)
            if r < 0.5:
                items.append(("frame", frame_of(pl), pl))
                mid_ = (pl[0] << 4) | (pl[1] >> 4) if len(pl) >= 6 else -1
                if rnd.random() < 0.35 and (mid_ in (1005, 1006) or (mid_ >= 0 and str(mid_) not in bundle["defs"] and mid_ != 4076)):
                    # a later copy whose PAYLOAD is altered while the checksum bytes stay (fixed-layout or
                    # unknown types only, so that it still decodes): with validation off it is delivered
                    # and must be decoded as ITS OWN payload, not as the earlier frame's
                    fr2 = bytearray(frame_of(pl))
                    fr2[3 + rnd.randrange(3, len(pl))] ^= 1 << rnd.randrange(8)
                    items.append(("badcrc", bytes(fr2), bytes(fr2[3:-3])))
            elif r < 0.75:
                items.append(("badcrc", wrong_crc(rnd, frame_of(pl)), pl))
            elif r < 0.85:
                items.append(("nmea", rnd.choice(gen_streams.NMEA_OK), None))
            else:
                items.append(("ubx", gen_streams.ubx(rnd), None))
        # in every stream: an MSM frame at the edge of the masks (satellite ID 64 and signal ID 32 set / no cells)
        e1 = edgepool[(s * 7) % len(edgepool)]
        items.insert(rnd.randrange(len(items) + 1), ("frame", frame_of(e1), e1))
        # in every stream: a well-formed frame (right checksum) of a defined type whose payload is too
        # short to decode: with parsing on it is reported / dropped under EVERY validate setting
        u5 = bytes([0x3E, 0xD0]) + bytes(rnd.randrange(256) for _ in range(rnd.randint(2, 9)))
        items.insert(rnd.randrange(len(items) + 1), ("undecodable", frame_of(u5), u5))
        # in every stream: two LARGE frames (> 300 and >= 1000 payload bytes), one of them with a wrong checksum
        b1, b2 = bigpool[s % len(bigpool)], bigpool[-1 - (s % 2)]
        items.insert(rnd.randrange(len(items) + 1), ("frame" if s % 2 else "badcrc", frame_of(b1) if s % 2 else wrong_crc(rnd, frame_of(b1)), b1))
        items.insert(rnd.randrange(len(items) + 1), ("badcrc" if s % 2 else "frame", wrong_crc(rnd, frame_of(b2)) if s % 2 else frame_of(b2), b2))
        # in every stream: a frame and, later, a copy whose PAYLOAD is altered while the checksum bytes
        # stay (fixed-layout 1005 / an unknown type, so that the copy still decodes)
        p5, _ = gen_messages.build("1005", bundle, rnd, values="random")
        base_pl = p5 if (p5 and s % 2 == 0) else bytes([0x7D, 0x20 | rnd.randrange(16)]) + bytes(rnd.randrange(256) for _ in range(rnd.randint(8, 40)))
        fr2 = bytearray(frame_of(base_pl))
        fr2[3 + rnd.randrange(3, len(base_pl))] ^= 1 << rnd.randrange(8)
        at = rnd.randrange(len(items) + 1)
        items.insert(at, ("frame", frame_of(base_pl), base_pl))
        items.insert(rnd.randrange(at + 1, len(items) + 1), ("badcrc", bytes(fr2), bytes(fr2[3:-3])))
        data = b"".join(i[1] for i in items)
        g = {}
        for ci, (v, p, q) in enumerate(combos):
            for lab in ((1, 2) if p else (1,)):          # the label option is an option too: both values under every combination
                tid, ev, res = tr.add(data, kind=["bytesio", "scripted"][ci % 2], validate=v, parsed=p, quit=q, labelmsm=lab, rnd=rnd, items=items, labelmsm_=lab)
                g[(v, p, q, lab)] = tid
        groups.append((data, items, g))
        # static parser with validate = 0 on wrong-CRC frames
        for kind, fr, pl in items:
            if kind == "badcrc":
                corp.add(None, 1, via="parse", frame=fr, validate=0, lbl=False, ident="static-v0", kind="static")
    verdicts = tr.judge()
    for tid, v in verdicts.items():
        m = tr.meta[tid]
        rep.case(digest([m["data"].hex(), m["validate"], m["parsed"], m["quit"]]), nontrivial=len({i[0] for i in m["items"]}) >= 3)
        if v[0] != "accept":
            rep.reject(v[1], {"engine": "framer", "validate": m["validate"], "parsed": m["parsed"], "quit": m["quit"], "detail": str(v[3])[:60]}, tr.replay_of(tid, v))
    for data, items, g in groups:
        base = g[(1, True, 1, 1)]
        io0 = [(e["op"], e["n"], len(e["data"])) for e in tr.traces[base - 1]["ev"] if e["op"] != "call"]
        valid = [i[1] for i in items if i[0] == "frame"]
        anyf = [i[1] for i in items if i[0] in ("frame", "badcrc")]
        rawf = [i[1] for i in items if i[0] in ("frame", "badcrc", "undecodable")]     # parsing off: every frame-shaped item
        for (v, p, q, _lab), tid in g.items():
            m = tr.meta[tid]
            facts = {"engine": "framer", "validate": v, "parsed": p, "quit": q}
            io = [(e["op"], e["n"], len(e["data"])) for e in tr.traces[tid - 1]["ev"] if e["op"] != "call"]
            if io != io0:
                rep.reject("IoIndependentOfOptions", facts, {**tr.replay_of(tid, verdicts[tid]), "first_diff": next((i for i, (a, b) in enumerate(zip(io, io0)) if a != b), min(len(io), len(io0)))})
            got = [bytes(r[0]) for r in tr.results[tid]]
            want = rawf if not p else anyf if v == 0 else valid
            if got != want:
                rep.reject("ParsedOffSameRaw" if not p else "ValidateOffAcceptsWrongCrc" if v == 0 else "RawSequence", facts,
                           {**tr.replay_of(tid, verdicts[tid]), "delivered": len(got), "expected": len(want)})
            if not p and any(r[1] is not None for r in tr.results[tid]):
                rep.reject("ParsedOffNoObject", facts, tr.replay_of(tid, verdicts[tid]))
            if p:
                njudged = 0
                wrongcrc = {i[1] for i in items if i[0] == "badcrc"}
                for raw, msg in tr.results[tid]:
                    # every MSM object (labels depend on the option), every object of a wrong-checksum
                    # frame (validation off: it must be the decode of ITS payload) and a few others
                    ismsm = msg is not None and str(msg.identity)[:3] in ("107", "108", "109", "110", "111", "112", "113")
                    if msg is not None and (ismsm or bytes(raw) in wrongcrc or njudged < (2 if quick else 8)):
                        njudged += 1
                        corp.add_message(raw[3:-3], msg, m["labelmsm_"], lbl=True, ident="slice", kind=f"v{v}")
    # readers with different options ALIVE AT THE SAME TIME over copies of one stream, drained
    # round-robin: every reader must return what it returns when run alone (options are per reader)
    import io as _io

    from pyrtcm import RTCMReader

    for data, items, g in groups[: (3 if quick else 20)]:
        keys = list(g)
        rds = {k: RTCMReader(_io.BytesIO(data), validate=k[0], parsed=k[1], quitonerror=0, labelmsm=k[3]) for k in keys}
        outs = {k: [] for k in keys}
        live = set(keys)
        while live:
            for k in list(live):
                r, p = rds[k].read()
                if r is None and p is None:
                    live.discard(k)
                else:
                    outs[k].append((bytes(r), None if p is None else str(p)))
        for k in keys:
            if k[2] == 2:
                continue      # (raise mode runs are not comparable with the ignore-mode readers used here)
            alone = [(bytes(r), None if p is None else str(p)) for r, p in tr.results[g[k]]]
            if outs[k] != alone:
                rep.reject("ReadersIndependent", {"engine": "framer", "validate": k[0], "parsed": k[1], "labelmsm": k[3]},
                           {"stream_hex": data.hex(), "options": {"validate": k[0], "parsed": k[1], "labelmsm": k[3]},
                            "alone": len(alone), "interleaved": len(outs[k])})
    dv = corp.judge()
    for key, a, b in corp.conflicts:
        rep.reject("ValidateOffDecodesSame:BandLabelInconsistent", {"engine": "framer+decode", "gnss": key[1], "sigid": key[2]}, {"labels": [a, b], "key": list(key)})
    for r in corp.recs:
        x = dv[r["rid"]]
        if x[0] != "accept":
            rep.reject("ValidateOffDecodesSame:" + x[1], {"engine": "framer+decode", "kind": corp.meta[r["rid"]]["kind"]}, de.replay_of(r, corp.meta[r["rid"]], x))
        elif corp.meta[r["rid"]]["kind"] == "static" and x[1] not in ("Message", "Stub"):
            rep.reject("ValidateOffStillRejects", {"engine": "decode"}, de.replay_of(r, corp.meta[r["rid"]], x))
    rep.notes["option_groups"] = len(groups)
    rep.sample({"stream_items": [i[0] for i in groups[0][1]], "combinations": len(groups[0][2]), "delivered_per_combo": {str(k): len(tr.results[t]) for k, t in list(groups[0][2].items())[:6]}})
