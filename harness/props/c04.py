"""
C04 - parsing is total: only the library's own errors, and it always terminates.

 (A) TLC: MC_DecodeMini with liveness (Terminates: every decode reaches
     ok | stub | fail, no deadlock) and MC_Framer bytes mode (Terminates over
     every finite stream and fault placement; OnlyLibraryErrors,
     ModeDiscipline: ignore/log never raise).
 (B) constructor and static parser judged by DecodeJudge.tla: all 4096 numbers
     x payload lengths 0..3, all 4076 sub-types with 2..4 bytes, structure-aware
     mutations of valid messages (every kind of truncation, counters and masks
     maximised, bodies spliced between types), arbitrary buffers for
     parse(validate 0/1).  The spec gives the allowed outcome; any exception
     that is not one of the library's classes is rejected (ForeignException).
 (C) stream iteration in the three error modes x validate over adversarial
     streams and the test logs with fault schedules, validated by
     FramerTrace.tla: no foreign exception, no raise in ignore/log mode, and
     the run ends (a generous per-case watchdog turns a hang into a violation).
"""

from .. import decode_engine as de
from .. import framer_engine as fe
from .. import gen_messages, gen_streams, stream_corpus
from ..common import Watchdog, digest, rng, watchdog
from ..decode_rec import frame_of

FINISH = dict(
    level="model_checking",
    rule="cases = constructor / static-parser inputs judged by DecodeJudge + reader executions validated by FramerTrace; "
    "distinct = input digest; non-trivial = input is not accepted as a plain valid message (error path or stub) or stream has damage/faults",
)


def mutations(rnd, pl, enc, pool):
    out = []
    n = len(pl)
    if n > 2:
        out.append(("trunc", pl[: rnd.randrange(0, n)]))
        out.append(("trunc1", pl[:-1]))
    # counters maximised
    v = int.from_bytes(pl, "big")
    total = n * 8
    for name, idx, off, w in enc.layout:
        if name in enc.counters and w and rnd.random() < 0.7:
            v |= ((1 << w) - 1) << (total - off - w)
    out.append(("maxcount", v.to_bytes(n, "big")))
    v2 = int.from_bytes(pl, "big")
    for name, idx, off, w in enc.layout:
        if name in ("DF394", "DF395", "DF396") and w:
            v2 |= ((1 << w) - 1) << (total - off - w)
    if v2 != int.from_bytes(pl, "big"):
        out.append(("maxmask", v2.to_bytes(n, "big")))
    other = rnd.choice(pool)
    k = rnd.randrange(2, max(3, min(n, len(other))))
    out.append(("splice", pl[:k] + other[k:]))
    b = bytearray(pl)
    for _ in range(rnd.randint(1, 4)):
        b[rnd.randrange(n)] = rnd.randrange(256)
    out.append(("noise", bytes(b)))
    return [(k, p) for k, p in out if len(p) <= 1023]


def run(tier, rep):
    quick = tier == "quick"
    from .. import decode_rec as _dr

    _dr.MEMORYVIEW_BUFFERS = True       # C04: any buffer given to the static parser / the constructor
    rep.assumptions += ["TLC 1.8", "watchdog 20 s per case (inputs take milliseconds)"]
    bundle = de.real_bundle()
    de.mc_mini(rep, 10 if quick else 12, liveness=True)
    fe.mc(rep, "bytes", 8 if quick else 18, maxpay=1, optset="OptAll", bundle=bundle, liveness=True)

    # user-registered (mini) definitions, incl. malformed ones, through the real interpreter
    recs, mv = de.judge_minis(rep, 8 if quick else 12)
    rep.count("traces_validated_against_impl", len(recs))
    for r in recs:
        v = mv[r["rid"]]
        rep.case(digest(["mini", bytes(r["p"]).hex()]), nontrivial=v[1] != "Message")
        if v[0] != "accept":
            rep.reject(v[1], {"engine": "mini", "ident": r.get("ident", ""), "cls": r["cls"]}, de.replay_of(r, {"mini": True}, v))

    rnd = rng("c04")
    corp = de.Corpus(rep, bundle)
    hung = []

    def add(pl, **kw):
        try:
            with watchdog(20):
                return corp.add(pl, kw.pop("lab", 1), lbl=False, **kw)
        except Watchdog:
            hung.append((pl, kw))
            rep.reject("NoTermination", {"engine": "decode", "kind": kw.get("kind", "")}, {"payload_hex": bytes(pl or b"").hex(), "frame_hex": bytes(kw.get("frame") or b"").hex()})
            return None

    # all numbers x lengths 0..3
    step = 1
    for mid in range(0, 4096, step):
        for n in (0, 1, 2, 3):
            if quick and n == 3 and mid % 4:
                continue
            body = bytes([mid >> 4, (mid & 0xF) << 4 | rnd.randrange(16), rnd.randrange(256)])[:n]
            add(body, ident=str(mid), kind=f"short{n}")
    for sub in range(256):
        for n in (2, 3, 4):
            body = bytes([0xFE, 0xC0 | (sub >> 7), (sub & 0x7F) << 1, rnd.randrange(256)])[:n]
            add(body, ident=f"4076_{sub:03d}", kind=f"short{n}")
    for pl in stream_corpus.framelike_payloads(rnd) + stream_corpus.special_int_payloads(rnd) + stream_corpus.texty_payloads(bundle, rnd, 30):
        add(pl, ident="special", kind="special")
    # structure-aware mutations
    cases = gen_messages.corpus(bundle, "c04", per_ident=1 if quick else 3)
    pool = [c[2] for c in cases]
    for ident, pn, pl, enc in cases:
        for kind, mp in mutations(rnd, pl, enc, pool):
            add(mp, ident=ident, kind="mut:" + kind)
    # coverage-guided expansion: mutated inputs that reach lines of pyrtcm the corpus did not reach
    from .. import covfuzz

    found = covfuzz.expand_decode([(c[2], c[3].layout) for c in cases], budget_s=8 if quick else 90, tag="c04-cov")
    rep.notes["coverage_guided"] = dict(covfuzz.expand_decode.stats)
    for pl, lab in found:
        add(pl, lab=lab, ident="covfuzz", kind="covfuzz")
    # static parser on arbitrary buffers
    for i in range(300 if quick else 3000):
        r = rnd.random()
        if r < 0.3:
            buf = bytes(rnd.randrange(256) for _ in range(rnd.randrange(0, 14)))
        elif r < 0.6:
            fr = bytearray(frame_of(rnd.choice(pool)))
            for _ in range(rnd.randint(0, 3)):
                fr[rnd.randrange(len(fr))] ^= 1 << rnd.randrange(8)
            buf = bytes(fr)
        elif r < 0.8:
            fr = frame_of(rnd.choice(pool))
            buf = fr[: rnd.randrange(len(fr))]
        else:
            buf = frame_of(bytes(rnd.randrange(256) for _ in range(rnd.randrange(0, 5))))
        add(None, via="parse", frame=buf, validate=i % 2, ident="buffer", kind="static")
    dv = corp.judge()
    for r in corp.recs:
        v = dv[r["rid"]]
        meta = corp.meta[r["rid"]]
        body = bytes(r["p"]) if r["via"] == "ctor" else bytes(r["frame"])
        rep.case(digest([body.hex(), r["via"], r["validate"]]), nontrivial=v[1] not in ("Message",))
        if v[0] != "accept":
            rep.reject(v[1], {"engine": "decode", "ident": meta.get("ident", ""), "kind": meta.get("kind", "").split(":")[0], "len": len(body),
                              "cls": r["cls"]}, de.replay_of(r, meta, v))
    rep.notes["ctor_and_static_inputs"] = len(corp.recs)

    # streams
    tr = fe.Traces(rep)
    spool = stream_corpus.payload_pool(bundle, "c04", 60) + [b"", b"\x3e", b"\xfe\xc0"]
    # frames with a right checksum whose payload does not decode (truncated / mutated bodies of defined types)
    for pl in list(spool[:40]):
        if len(pl) > 4:
            spool.append(pl[: rnd.randrange(2, len(pl))])
    n = 40 if quick else 600
    for i in range(n):
        data, items = gen_streams.mixed_stream(rnd, spool, rnd.randint(3, 12), well_formed=False, dmg=0.3)
        if i % 5 == 0:
            data = bytes(rnd.choice([0xD3, 0xB5, 0x24, 0x62, 0x47, 0, 1, 2, 3, 10, 13, rnd.randrange(256)]) for _ in range(rnd.randint(1, 400)))
        fm = rnd.choice(["none", "eof", "short", "mixed"])
        try:
            with watchdog(20):
                tr.add(data, kind="scripted" if fm != "none" else rnd.choice(["scripted", "bytesio", "buffered", "pipe"]), validate=i % 2,
                       parsed=True, quit=i % 3, handler=bool(i % 4), faults=gen_streams.faults(rnd, 100, fm), rnd=rnd, use_iter=bool(i % 2))
        except Watchdog:
            rep.reject("NoTermination", {"engine": "framer", "quit": i % 3}, {"stream_hex": data.hex(), "quitonerror": i % 3, "validate": i % 2})
    # truncated tails (the stream ends inside a frame / sentence) on every kind of stream object, incl. a
    # non-seekable one (read end of a pipe)
    for i in range(16 if quick else 200):
        data, items = gen_streams.mixed_stream(rnd, spool, rnd.randint(2, 6), well_formed=True)
        cutat = rnd.randrange(max(1, len(data) - 40), len(data)) if len(data) > 1 else 1
        with watchdog(20):
            tr.add(data[:cutat], kind=["pipe", "buffered", "bytesio", "pipe"][i % 4], validate=1, parsed=True, quit=i % 3, handler=bool(i % 2), rnd=rnd,
                   use_iter=bool(i % 2))
    for fn in stream_corpus.log_files()[: (3 if quick else 99)]:
        data = open(fn, "rb").read()[: (5000 if quick else 10**9)]
        for q in (0, 1, 2):
            with watchdog(60):
                tr.add(data, kind="scripted", validate=1, parsed=True, quit=q, faults=gen_streams.faults(rnd, 300, "mixed"), rnd=rnd)
    verdicts = tr.judge()
    for tid, v in verdicts.items():
        m = tr.meta[tid]
        rep.case(digest([m["data"].hex(), str(m["faults"]), m["quit"], m["validate"]]), nontrivial=True)
        evs = tr.traces[tid - 1]["ev"]
        if v[0] != "accept":
            rep.reject(v[1], {"engine": "framer", "quit": m["quit"], "validate": m["validate"], "detail": str(v[3])[:60]}, tr.replay_of(tid, v))
        elif m["quit"] < 2 and any(e["then"] == "raise" for e in evs):
            rep.reject("IteratorRaised", {"engine": "framer", "quit": m["quit"]}, tr.replay_of(tid, v))
        elif evs[-1]["then"] != "eof":
            rep.reject("NoCleanEnd", {"engine": "framer", "quit": m["quit"]}, tr.replay_of(tid, v))
    rep.notes["stream_runs"] = len(tr.traces)
    r = corp.recs[1]
    rep.sample({"ctor_payload_hex": bytes(r["p"]).hex(), "observed": r["out"] + ":" + r["cls"], "spec": dv[r["rid"]][1]})
    rep.sample({"stream_len": len(tr.meta[1]["data"]), "mode": tr.meta[1]["quit"], "events": len(tr.traces[0]["ev"]), "verdict": verdicts[1][1]})
