"""
C05 - a damaged frame costs exactly that frame; error modes differ only in reporting.

 (A) TLC: MC_Framer, items mode with Damage - every sequence of up to N items
     where any frame may have one altered byte behind the header, every option
     combination: DebtSettled (a damaged frame is reported exactly once in log
     mode, raised in raise mode, silently dropped in ignore mode, and nothing
     else is lost), RaiseThenResume, NoLoss, Terminates.
 (B) FramerTrace.tla validation of real executions over streams of real frames
     where a chosen subset is damaged by 1-3 flipped bits or a burst <= 24 bits
     behind the 3-byte header (guaranteed detectable - MC_Crc), in the three
     error modes with and without a user handler; the client calls read()
     again after every exception.  CRC-24Q of every frame is recomputed in
     TLA+, so "damaged" is the spec's verdict, not the generator's.
 (C) direct clause: delivered = the undamaged frames, in order; handler calls
     (log mode) = number of damaged frames, all RTCMParseError; none in ignore
     mode; in raise mode one RTCMParseError per damaged frame and the reader
     keeps working.
"""

from .. import decode_engine as de
from .. import framer_engine as fe
from .. import gen_streams, stream_corpus
from ..common import digest, rng
from ..decode_rec import frame_of

FINISH = dict(
    level="model_checking",
    rule="cases = reader executions over streams with a damaged subset x error mode x handler, validated by TLC; "
    "distinct = digest of (stream, mode, handler); non-trivial = at least one damaged and one undamaged frame",
)


def run(tier, rep):
    quick = tier == "quick"
    rep.assumptions += ["TLC 1.8", "damage patterns are in the classes MC_Crc shows to be always detected"]
    bundle = de.real_bundle()
    fe.mc(rep, "items", 3 if quick else 6, maxpay=2, damage=True, optset="OptCore" if quick else "OptAll", bundle=bundle, hraise=True)
    rnd = rng("c05")
    pool = stream_corpus.payload_pool(bundle, "c05", 80)
    pool += stream_corpus.syncy_payloads(rnd, 40)
    crcpool = stream_corpus.crc_targeted_payloads(bundle, rnd)
    von, voff = stream_corpus.validate_values()
    tr = fe.Traces(rep)
    n = 90 if quick else 1000
    for i in range(n):
        k = rnd.randint(2, 9)
        # every third stream repeats a few payloads verbatim (base stations do: 1005/1006/1033/1230)
        sub = rnd.sample(pool, 3) if i % 4 == 0 else pool
        if i % 4 == 0:
            k = rnd.randint(5, 12)
        if i % 5 == 2:
            sub = crcpool + rnd.sample(pool, 4)     # frames with special CRC bytes (zeros, sync bytes, CR LF)
        frames = [frame_of(rnd.choice(sub)) for _ in range(k)]
        dm = [rnd.random() < 0.4 for _ in frames]
        if not any(dm):
            dm[rnd.randrange(k)] = True
        if all(dm):
            dm[rnd.randrange(k)] = False
        if i % 4 == 0:
            dm[0] = False     # a good copy first, damaged copies of the same payload later
        where = [rnd.choice([None, "crc", "crc", "payload"]) for _ in frames]
        if i % 4 == 0 and k >= 5:
            # two (differently) payload-damaged copies of ONE frame: identical CRC bytes, both must be reported
            frames[2] = frames[4] = frames[0]
            dm[2] = dm[4] = True
            where[2] = where[4] = "payload"
        if i % 4 == 3:
            # growth after damage: the longest frame of the stream comes after a damaged one (the
            # handler keeps every error object alive)
            bigf = frame_of(bytes([0x7D, 0x30 | (i % 16)]) + bytes(rnd.randrange(256) for _ in range(rnd.choice([520, 700, 1021]))))
            frames.append(bigf)
            dm.append(False)
            where.append(None)
            k += 1
        sent = [gen_streams.damage(rnd, f, where=w) if d else f for f, d, w in zip(frames, dm, where)]
        data = b"".join(sent)
        quit = i % 3
        handler = (i // 3) % 2 == 0
        # in every fourth log-mode run the user's handler raises at some of its calls
        hr = set(rnd.sample(range(sum(dm)), rnd.randint(1, sum(dm)))) if (quit == 1 and handler and i % 4 == 1) else None
        tr.add(data, kind=rnd.choice(["bytesio", "scripted", "buffered"]), validate=rnd.choice(von), parsed=True, quit=quit, handler=handler,
               rnd=rnd, hraise=hr, want=[f for f, d in zip(sent, dm) if not d], ndam=sum(dm), nframes=k)
    verdicts = tr.judge()
    for tid, v in verdicts.items():
        m = tr.meta[tid]
        rep.case(digest([m["data"].hex(), m["quit"], m["handler"]]), nontrivial=0 < m["ndam"] < m["nframes"])
        facts = {"engine": "framer", "quit": m["quit"], "handler": m["handler"]}
        if v[0] != "accept":
            rep.reject(v[1], {**facts, "detail": str(v[3])[:60]}, tr.replay_of(tid, v))
            continue
        # (a raise with request size 0 is the user's handler escalating, not the reader reporting)
        evs = [e for e in tr.traces[tid - 1]["ev"] if not (e["op"] == "read" and e["n"] == 0 and e["then"] == "raise")]
        got = [bytes(r[0]) for r in tr.results[tid]]
        nh = sum(1 for e in evs if e["then"] == "handler")
        nr = sum(1 for e in evs if e["then"] == "raise")
        bad = None
        if got != m["want"]:
            bad = ("DamageCostsOneFrame", {"delivered": len(got), "undamaged": len(m["want"])})
        elif m["quit"] == 1 and nh != m["ndam"]:
            bad = ("HandlerOncePerDamage", {"handler_or_log_calls": nh, "damaged": m["ndam"], "user_handler": m["handler"]})
        elif m["quit"] == 0 and (nh or nr):
            bad = ("IgnoreModeSilent", {"handler_calls": nh, "raises": nr})
        elif m["quit"] == 2 and nr != m["ndam"]:
            bad = ("RaiseOncePerDamage", {"raises": nr, "damaged": m["ndam"]})
        elif any(e["then"] in ("handler", "raise") and e["cls"] != "RTCMParseError" and not e.get("anycls") for e in evs):
            bad = ("DamageIsParseError", {"classes": sorted({e["cls"] for e in evs if e["then"] in ("handler", "raise")})})
        if bad:
            rep.reject(bad[0], facts, {**tr.replay_of(tid, v), **bad[1]})
    m = tr.meta[1]
    rep.sample({"frames": m["nframes"], "damaged": m["ndam"], "mode": m["quit"], "handler": m["handler"], "delivered": len(tr.results[1]), "verdict": verdicts[1][1]})
