"""
C07 - serialise and parse are mutual inverses, framing canonical.

 (A) TLC: MC_Frame - Frame(q) for all payloads <= 3 bytes over 3 symbols and
     for lengths 255 / 256 / 1023: preamble, 16-bit big-endian length with six
     zero bits, payload slice, CRC-24Q trailer, zero remainder.
 (B) histories  construct(p) ; serialize ; payload ; parse(serialize()) ;
     eval(repr)  for payloads of every defined identity, unknown types and
     lengths 2..1023, judged by DecodeJudge.tla: the frame is rebuilt in TLA+
     (CRC-24Q from Crc24q.tla) and compared byte for byte; the re-parsed
     message must have the identity and every attribute the spec derives from
     the payload.
 (C) every valid frame of the repository's test logs and generated valid
     frames: parse then serialise reproduces the frame (op frameback).
"""

import glob
import os

from .. import decode_engine as de
from .. import gen_messages, message_rec, tlc
from ..common import REPO, digest, rng
from ..decode_rec import frame_of

FINISH = dict(
    level="model_checking",
    rule="cases = message histories (construct; serialize; payload; reparse; repr / parse; frameback) judged by TLC; "
    "distinct = payload digest; non-trivial = payload of a defined identity or length >= 3",
)

MC_CFG = """SPECIFICATION Spec
CONSTANTS Sym = {0, 211, 255}
 MaxLen = %d
 Long = {255, 256, 1023}
INVARIANT Preamble
INVARIANT LengthField
INVARIANT PayloadIn
INVARIANT FrameLen
INVARIANT TrailerIsCrc
INVARIANT ZeroRemainder
CHECK_DEADLOCK FALSE
"""


def log_frames(limit):
    """valid frames of the repository's own test logs (read with the harness's own framer)"""
    out = []
    for fn in sorted(glob.glob(os.path.join(REPO, "tests", "*.log")) + glob.glob(os.path.join(REPO, "tests", "*.bin"))):
        data = open(fn, "rb").read()
        i = 0
        while i + 6 <= len(data) and len(out) < limit:
            if data[i] == 0xD3 and data[i + 1] < 4:
                n = (data[i + 1] << 8) | data[i + 2]
                fr = data[i : i + n + 6]
                if len(fr) == n + 6 and frame_of(fr[3:-3]) == fr:
                    out.append((os.path.basename(fn), fr))
                    i += n + 6
                    continue
            i += 1
    return out


def run(tier, rep):
    quick = tier == "quick"
    rep.assumptions += ["Crc24q.tla pinned from the standard (generator 0x1864CFB)", "TLC 1.8"]
    res = tlc.run("MC_Frame", MC_CFG % (3 if quick else 5), workers=4, heap="1g")
    tlc.must_ok(res, "MC_Frame")
    rep.add_tlc(res)

    corp = de.Corpus(rep)
    from pyrtcm.rtcmtypes_core import RTCM_DATA_FIELDS as fields  # noqa: N811

    rnd = rng("c07")
    cases = [(i, pn, pl) for i, pn, pl, _ in gen_messages.corpus(corp.bundle, "c07", per_ident=1 if quick else 3)]
    # unknown types and special lengths (2, 3, 255, 256, 1023)
    for n in (2, 3, 4, 255, 256, 1022, 1023):
        for mid in (0, 999, 1069, 1070, 1230 + 7, 4075, 4095, rnd.randrange(2000, 3900)):
            body = bytes([mid >> 4, (mid & 0xF) << 4 | rnd.randrange(16)]) + bytes(rnd.randrange(256) for _ in range(n - 2))
            cases.append((str(mid), f"unknown-len{n}", body))
    from .. import stream_corpus

    for pl in stream_corpus.framelike_payloads(rnd) + stream_corpus.special_int_payloads(rnd):
        cases.append(("special", "special", pl))
    # (payloads that look like text: whether one with a defined number decodes is for the spec to say)
    for pl in stream_corpus.texty_payloads(corp.bundle, rnd, 24):
        cases.append(("texty", "texty", pl))
    # maximal messages of defined types
    for ident in (["1004", "1077", "1127", "4076_201", "1029", "1033"] if quick else sorted(corp.bundle["defs"])[::3]):
        pl, _ = gen_messages.build(ident, corp.bundle, rnd, values="random", count="max", mask="dense")
        if pl:
            cases.append((ident, "max", pl))
    for ident, pn, pl in cases:
        lab = rnd.choice([1, 1, 2])
        rid, r, msg = corp.add(pl, lab, keep_msg=True, ident=ident, profile=pn)
        if msg is not None:
            r["sd"] = message_rec.state_digest(msg)
            r["ops"] = [message_rec.do_op(msg, op, fields, labelmsm=lab) for op in ("serialize", "payload", "reparse", "repr")]
    # valid frames: parse, then serialise must give the frame back
    frames = log_frames(60 if quick else 2000)
    for ident, pn, pl in cases[:: (4 if quick else 1)]:
        frames.append(("gen:" + ident, frame_of(pl)))
    for fi, (src, fr) in enumerate(frames):
        # (validation on / off alternately: for a valid frame the result is the same)
        rid, r, msg = corp.add(None, 1, keep_msg=True, via="parse", frame=fr, validate=fi % 2, ident=src, profile="frame")
        if msg is not None:
            r["sd"] = message_rec.state_digest(msg)
            o = message_rec.do_op(msg, "serialize", fields)
            o["op"] = "frameback"
            r["ops"] = [o]
    # CRC twins: two different valid frames of equal length with the SAME CRC-24Q, parsed one after the other
    from .. import gen_crc

    for ident, pn, pl in cases[: (40 if quick else 400)]:
        tw = gen_crc.twin(pl, rnd) if len(pl) >= 8 else None
        if tw is None:
            continue
        for fr in (frame_of(pl), frame_of(tw)):
            rid, r, msg = corp.add(None, 1, keep_msg=True, via="parse", frame=fr, validate=1, ident="gen:twin:" + ident, profile="twin")
            if msg is not None:
                o = message_rec.do_op(msg, "serialize", fields)
                o["op"] = "frameback"
                r["ops"] = [o, message_rec.do_op(msg, "payload", fields)]
    # CRC-consistent but NON-canonical buffers (the static parser checks the CRC only): reserved bits
    # set, a length field that does not tally, another first byte - the message is the one of the
    # enclosed payload and serialising it gives the CANONICAL frame
    from ..decode_rec import crc24q
    from pyrtcm import RTCMReader

    for ident, pn, pl in cases[:: (9 if quick else 2)]:
        if len(pl) < 2:
            continue
        n = len(pl)
        for hdr in (bytes([0xD3, (n >> 8) | (rnd.randrange(1, 64) << 2), n & 0xFF]),
                    bytes([0xD3, ((n + 5) % 1024) >> 8, (n + 5) % 1024 & 0xFF]),
                    bytes([rnd.choice([0x00, 0xD2, 0xFF]), n >> 8, n & 0xFF])):
            body = hdr + pl
            fr = body + crc24q(body).to_bytes(3, "big")
            rid, r, msg = corp.add(None, 1, keep_msg=True, via="parse", frame=fr, validate=1, ident="noncanon:" + ident, profile="noncanonical")
            if msg is not None:
                r["ops"] = [message_rec.do_op(msg, "serialize", fields), message_rec.do_op(msg, "payload", fields)]
    # the caller's receive buffer is reused after parse(): the message must not alias it
    for ident, pn, pl in cases[:: (11 if quick else 3)]:
        if len(pl) < 2:
            continue
        buf = bytearray(frame_of(pl))
        try:
            msg = RTCMReader.parse(buf, validate=1)
        except Exception:  # pylint: disable=broad-except
            continue
        for i in range(len(buf)):
            buf[i] = (buf[i] + 1 + i) & 0xFF
        rid, r = corp.add_message(pl, msg, 1, lbl=False, ident="bufreuse:" + ident, profile="buffer-reuse")
        r["ops"] = [message_rec.do_op(msg, "serialize", fields), message_rec.do_op(msg, "payload", fields)]
    verdicts = corp.judge()
    for r in corp.recs:
        v = verdicts[r["rid"]]
        meta = corp.meta[r["rid"]]
        body = bytes(r["p"]) if r["via"] == "ctor" else bytes(r["frame"])
        rep.case(digest([body.hex(), r["via"]]), nontrivial=len(body) >= 3)
        if v[0] != "accept":
            rep.reject(v[1], {"engine": "message", "ident": meta["ident"], "via": r["via"], "len": len(body)}, de.replay_of(r, meta, v))
        elif r["via"] == "parse" and v[1] not in ("Message", "Stub") and meta["ident"].startswith("gen:") and not meta["ident"].startswith(("gen:twin", "gen:texty")):
            # (frames of the logs whose payload the spec itself rejects - e.g. the truncated 1302
            # messages of the NTRIP log - are outside C07: it speaks of payloads that parse)
            rep.reject("ValidFrameRejected", {"engine": "message", "ident": meta["ident"]}, de.replay_of(r, meta, v))
    rep.notes["histories"] = len(corp.recs)
    rep.notes["log_frames"] = sum(1 for s, _ in frames if not s.startswith("gen:"))
    r = corp.recs[0]
    rep.sample({"payload_hex": bytes(r["p"]).hex()[:60], "ops": [o["op"] for o in r["ops"]],
                "serialized_hex": bytes(r["ops"][0]["bytes"]).hex()[:80] if r["ops"] else "", "verdict": verdicts[1][1]})
