"""
C16 - the MSM label option changes signal labels only.

 In Decode.tla the expected attribute list does not depend on the label option
 at all: a CELLSIG attribute is the pair (constellation, signal ID) and only
 its rendering (DecodeJudge.Match: RINEX code pinned by StdMsm / band label
 learnt-and-consistent / N/A) depends on the mode - so "labels only" is a
 structural fact of the specification, and the code is held to it:
 (A) TLC: MC_DecodeMini (mini MSM definition) for the interpreter invariants.
 (B) every MSM identity x mask shapes decoded under option values 0, 1, 2, True
     through the constructor, the static parser and the stream reader
     (pass-through of the option), each judged by DecodeJudge.tla in its mode;
     band labels must be identical wherever a (constellation, signal ID)
     occurs - within a message and across the whole run (variable `learnt`).
 (C) relational clause on the real objects: options 1 and 2 agree on every
     attribute except CELLSIG_*; non-MSM messages are identical under all options.
"""

from .. import decode_engine as de
from .. import gen_messages, msm_corpus
from ..common import digest, rng

FINISH = dict(
    level="model_checking",
    rule="cases = (payload, option, entry point) decodes judged by TLC; distinct by digest of the triple; "
    "non-trivial = MSM payload with at least one cell, or a non-MSM payload compared across options",
)

OPTS = [0, 1, 2, True]


def pub(msg):
    return [(k, v) for k, v in msg.__dict__.items() if not k.startswith("_")]


def run(tier, rep):
    quick = tier == "quick"
    rep.assumptions += ["option values 0 and True are not documented: the spec accepts either labelling for 0 (consistently within a message); True == 1 is RINEX", "TLC 1.8"]
    de.mc_mini(rep, 8 if quick else 12, liveness=False)
    corp = de.Corpus(rep)
    rnd = rng("c16")
    groups = []  # (ident, {opt: rid})
    cases = msm_corpus.build_all(corp.bundle, "c16", True)
    if quick:
        cases = [c for c in cases if rnd.random() < 0.45]
    vias = ["ctor", "parse", "reader", "parse0"]
    for n, (ident, shape, pl, enc) in enumerate(cases):
        g = {}
        for opt in OPTS:
            via = vias[(n + OPTS.index(opt)) % 4]
            if via in ("parse", "parse0"):
                from ..decode_rec import frame_of

                # (parse0: validation off - the label option must reach the message on that path too)
                rid, _, _ = corp.add(pl, opt, keep_msg=True, via="parse", frame=frame_of(pl), validate=0 if via == "parse0" else 1,
                                     ident=ident, shape=shape, via_=via, ncell=enc.ints.get("NCell", 0), msm=True)
            else:
                rid, _, _ = corp.add(pl, opt, keep_msg=True, via=via, ident=ident, shape=shape, via_=via,
                                     ncell=enc.ints.get("NCell", 0), msm=True)
            g[repr(opt)] = rid
        groups.append((ident, g, True))
    # non-MSM identities: unaffected by the option
    nonmsm = [i for i, t in corp.bundle["table"].items() if t != "msm"]
    for ident, pn, pl, enc in gen_messages.corpus(corp.bundle, "c16n", per_ident=1, idents=sorted(nonmsm)):
        g = {}
        for opt in ([1, 2] if quick else OPTS):
            rid, _, _ = corp.add(pl, opt, keep_msg=True, ident=ident, shape=pn, via_="ctor", ncell=0, msm=False)
            g[repr(opt)] = rid
        groups.append((ident, g, False))
    verdicts = corp.judge()
    for r in corp.recs:
        v = verdicts[r["rid"]]
        meta = corp.meta[r["rid"]]
        rep.case(digest([r["p"], r["frame"], repr(meta["labelmsm"]), meta["via_"]]), nontrivial=(meta["ncell"] > 0 or not meta["msm"]))
        if v[0] != "accept":
            f = {"engine": "decode", "ident": meta["ident"], "labelmsm": repr(meta["labelmsm"]), "via": meta["via_"]}
            rep.reject(v[1], f, de.replay_of(r, meta, v))
    for key, a, b in corp.conflicts:
        rep.reject("BandLabelInconsistent", {"engine": "decode", "mode": key[0], "gnss": key[1], "sigid": key[2]},
                   {"labels": [a, b], "key": list(key)})
    rep.notes["labels_learnt"] = len(corp.learnt)
    # relational clauses on the real objects
    for ident, g, ismsm in groups:
        msgs = {o: corp.msgs.get(rid) for o, rid in g.items()}
        if any(m is None for m in msgs.values()):
            if not all(m is None for m in msgs.values()):
                rep.reject("OptionChangesOutcome", {"engine": "decode", "ident": ident},
                           {"payload_hex": bytes(corp.recs[list(g.values())[0] - 1]["p"]).hex(), "outcomes": {o: (m is not None) for o, m in msgs.items()}})
            continue
        base = pub(msgs["1"])
        for o, m in msgs.items():
            cur = pub(m)
            names_ok = [k for k, _ in cur] == [k for k, _ in base]
            diff = [k for (k, a), (_, b) in zip(base, cur) if a != b] if names_ok else ["<names>"]
            bad = [k for k in diff if not (ismsm and k.startswith("CELLSIG_"))]
            if bad:
                rep.reject("LabelOnly", {"engine": "decode", "ident": ident, "option": o, "attr": bad[0].split("_")[0]},
                           {"payload_hex": bytes(m.payload).hex(), "option": o, "differs": bad[:8]})
    rep.notes["option_groups"] = len(groups)
    m1 = corp.meta[1]
    rep.sample({"ident": m1["ident"], "shape": m1["shape"], "options": [repr(o) for o in OPTS],
                "cellsig_rinex": [a["t"] for a in corp.recs[1]["attrs"] if a["n"].startswith("CELLSIG")][:4],
                "cellsig_band": [a["t"] for a in corp.recs[2]["attrs"] if a["n"].startswith("CELLSIG")][:4]})
