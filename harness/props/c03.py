"""
C03 - every data field decodes to the value its bits encode, for all types.

 (A) TLC: MC_DecodeMini - Decode.tla on every payload of the mini-definitions.
 (B) the same mini scope through the REAL interpreter, judged by the spec.
 (C) structure-aware corpus over every real identity x value/count/mask
     profiles, judged attribute by attribute by DecodeJudge.tla; complete
     payloads must decode to a message; relational checks (one plain field
     flipped -> only that attribute changes; tail bits change nothing).
"""

from .. import decode_engine as de
from .. import gen_messages
from ..common import digest, rng

FINISH = dict(
    level="model_checking",
    rule="cases = decode records of the real RTCMMessage judged by DecodeJudge.tla (TLC); "
    "distinct = distinct payload digests; non-trivial = payload longer than its identity header",
)


def _facts(rec, meta, verdict):
    f = {"engine": "decode", "ident": meta.get("ident", rec.get("ident", "")), "profile": meta.get("profile", "")}
    d = verdict[2]
    if isinstance(d, list) and d and d[0] == "attr":
        f["attr"] = d[2].get("n", "") if isinstance(d[2], dict) else ""
    return f


def plain_fields(enc):
    """layout entries of plain fields (not identity, counters, masks, conditions, harmonic degrees)"""
    out = []
    for name, idx, off, w in enc.layout:
        if w == 0 or name in enc.counters or name in ("DF002", "IDF001", "IDF002", "DF394", "DF395", "DF396", "IDF037", "IDF038"):
            continue
        out.append((name, idx, off, w))
    return out


def run(tier, rep):
    quick = tier == "quick"
    rep.assumptions += [
        "TLC 1.8, CommunityModules Json/IOUtils",
        "projection of Python values to (sign, magnitude bits) in harness/decode_rec.py",
        "float scaling checked by the identical IEEE multiplication outside TLC (DESIGN 6)",
    ]
    # (A) model checking of the interpreter specification
    de.mc_mini(rep, 10 if quick else 12, liveness=True)
    # two-run lemma: bytes after the last field change nothing (TailIndependent)
    de.mc_pair(rep, "tail", 7 if quick else 10)
    # ... and inverting one bit of a plain field changes that attribute only (FieldLocal)
    de.mc_pair(rep, "flip", 6 if quick else 10)
    # (B) the mini scope through the real code
    recs, verdicts = de.judge_minis(rep, 8 if quick else 12)
    rep.count("traces_validated_against_impl", len(recs))
    for r in recs:
        v = verdicts[r["rid"]]
        rep.case(digest(bytes(r["p"])), nontrivial=len(r["p"]) > 2)
        if v[0] != "accept":
            rep.reject(v[1], {"engine": "mini", "ident": r.get("ident", "")}, de.replay_of(r, {"mini": True}, v))
    rep.sample({"mini_payload": bytes(recs[len(recs) // 3]["p"]).hex(), "verdict": verdicts[recs[len(recs) // 3]["rid"]][1]})

    # (C) all real identities
    corp = de.Corpus(rep)
    cases = gen_messages.corpus(corp.bundle, "c03", per_ident=2 if quick else 7)
    if not quick:
        cases += gen_messages.corpus(corp.bundle, "c03b", per_ident=3)
    rnd = rng("c03-rel")
    rel = []  # (kind, rid_base, rid_variant, field full name)
    for ident, pn, pl, enc in cases:
        rid, r, msg = corp.add(pl, 1, keep_msg=True, lbl=False, ident=ident, profile=pn, complete=True)
        # relational variants for a subset
        if msg is not None and (not quick or rnd.random() < 0.5):
            # tail: flip pad bits and append a byte
            pad = (-enc.nbits) % 8
            var = bytearray(pl)
            if pad:
                var[-1] ^= (1 << pad) - 1
            var += bytes([rnd.randrange(256)])
            if len(var) <= 1023:
                rid2, _, _ = corp.add(bytes(var), 1, keep_msg=True, lbl=False, ident=ident, profile=pn + "+tail")
                rel.append(("TailIndependent", rid, rid2, None))
            pf = plain_fields(enc)
            if pf:
                name, idx, off, w = rnd.choice(pf)
                v = int.from_bytes(pl, "big")
                total = len(pl) * 8
                flip = rnd.getrandbits(w) or 1
                v ^= flip << (total - off - w)
                var = v.to_bytes(len(pl), "big")
                full = name + "".join(f"_{i:02d}" for i in idx)
                rid3, _, _ = corp.add(var, 1, keep_msg=True, lbl=False, ident=ident, profile=pn + "+flip")
                rel.append(("FieldLocal", rid, rid3, (name, full)))
    # payloads that look like text (all hex digits, base64 alphabet, printable): what they decode to is
    # for the specification to say - the bytes are the payload, whatever they look like
    from .. import stream_corpus

    for pl in stream_corpus.texty_payloads(corp.bundle, rnd, 36 if quick else 300):
        corp.add(pl, 1, lbl=False, ident="texty", profile="texty")
    if not quick:
        from .. import covfuzz

        for pl, lab in covfuzz.expand_decode([(c[2], c[3].layout) for c in cases], budget_s=90, tag="c03-cov"):
            corp.add(pl, 1, lbl=False, ident="covfuzz", profile="covfuzz")
        rep.notes["coverage_guided"] = dict(covfuzz.expand_decode.stats)
    verdicts = corp.judge()
    for r in corp.recs:
        v = verdicts[r["rid"]]
        meta = corp.meta[r["rid"]]
        rep.case(digest(bytes(r["p"])), nontrivial=len(r["p"]) > 3)
        if v[0] != "accept":
            rep.reject(v[1], _facts(r, meta, v), de.replay_of(r, meta, v))
        elif meta.get("complete") and v[1] != "Message":
            # a payload laid out field by field for this definition must decode
            rep.reject("CompleteMessageRejected", _facts(r, meta, v), de.replay_of(r, meta, v))
    # relational clauses on the real messages (both sides were judged above)
    for kind, a, b, fld in rel:
        ma, mb = corp.msgs.get(a), corp.msgs.get(b)
        if ma is None or mb is None:
            if ma is not None and mb is None:
                rep.reject(kind, {"engine": "decode", "ident": corp.meta[a]["ident"], "why": "variant rejected"},
                           de.replay_of(corp.recs[b - 1], corp.meta[b], verdicts[b]))
            continue
        da = dict((k, v) for k, v in ma.__dict__.items() if not k.startswith("_"))
        db = dict((k, v) for k, v in mb.__dict__.items() if not k.startswith("_"))
        diff = sorted(k for k in set(da) | set(db) if da.get(k, "<absent>") != db.get(k, "<absent>"))
        if kind == "TailIndependent":
            ok = not diff
        else:
            base, full = fld
            strname = base  # STR fields accumulate into the un-indexed name
            ok = diff in ([full], [strname])
        if not ok:
            rep.reject(kind, {"engine": "decode", "ident": corp.meta[a]["ident"], "field": str(fld)},
                       {**de.replay_of(corp.recs[b - 1], corp.meta[b], verdicts[b]), "base_payload_hex": bytes(corp.recs[a - 1]["p"]).hex(), "changed": diff[:10]})
    rep.notes["relational_pairs"] = len(rel)
    rep.notes["identities"] = len({m["ident"] for m in corp.meta.values()})
    ex = corp.recs[0]
    rep.sample({"ident": corp.meta[1]["ident"], "payload_hex": bytes(ex["p"]).hex()[:80], "attrs": [a["n"] for a in ex["attrs"]][:12], "verdict": verdicts[1][1]})
