"""
C19 - attribute-name helpers handle every name the parser generates.

 Specification: every attribute of Decode.tla carries its base field name b
 and its group indices ix (ghost), the name is Render(b, ix); for every
 attribute that stems from a data field  datadesc(name) = description of b,
 and for indexed ones  att2idx(name) = ix (int for one level, tuple for more)
 and att2name(name) = b.  Count attributes (NSat/NSig/NCell) are not data
 fields and are excluded, as the property says.
 (A) TLC: MC_Names - Render injective on all bases that occur inside groups x
     index tuples with 1-3 digits and 1-2 levels; no grouped base contains
     "_"; every field has a description.
 (B) the three helpers are called on EVERY attribute name of messages of all
     identities (plain, _NN, _NN_NN, _NNN; DF, IDF, PRN, CELLPRN, CELLSIG,
     ExtSatInfo, DF001_n, DF422_n) and judged by DecodeJudge.tla (op "names").
"""

from .. import decode_engine as de
from .. import gen_messages, message_rec, msm_corpus, tlc
from ..common import digest, rng

FINISH = dict(
    level="model_checking",
    rule="cases = attribute names of real messages, each with datadesc/att2idx/att2name judged by TLC; "
    "distinct = distinct (identity, attribute name) pairs; non-trivial = names of data fields (count attributes excluded)",
)

MC_CFG = """SPECIFICATION NSpec
CONSTANTS
  Fields <- MFields
  Defs <- MDefs
  TableOf <- MTable
INVARIANT NameInverse
INVARIANT GroupedBasesPlain
INVARIANT DescTotal
CHECK_DEADLOCK FALSE
"""


def grouped_bases(bundle):
    out = set()

    def walk(ast, inside):
        for n in ast:
            if n["k"] == "fld" and inside:
                out.add(n["n"])
            elif n["k"] == "grp":
                walk(n["body"], True)
            elif n["k"] == "opt":
                walk(n["body"], inside)

    for ast in bundle["defs"].values():
        walk(ast, False)
    return sorted(out)


def run(tier, rep):
    quick = tier == "quick"
    rep.assumptions += ["TLC 1.8", "descriptions travel as digests of their text"]
    corp = de.Corpus(rep)
    import json

    b2 = dict(corp.bundle)
    b2["grouped"] = grouped_bases(corp.bundle)
    from .. import decode_rec

    tp = decode_rec.write_tables(b2, "names-tables.json")
    res = tlc.run("MC_Names", MC_CFG, env={"VERIF_TABLES": tp}, workers=4, heap="1g")
    if res.invariant:
        rep.reject("Spec:" + res.invariant, {"engine": "tables"}, {"tlc_tail": res.out[-2000:]})
    else:
        tlc.must_ok(res, "MC_Names")
    rep.add_tlc(res)

    from pyrtcm.rtcmtypes_core import RTCM_DATA_FIELDS as fields  # noqa: N811

    rnd = rng("c19")
    cases = [(i, pl) for i, _, pl, _ in gen_messages.corpus(corp.bundle, "c19", per_ident=1 if quick else 3)]
    msm = msm_corpus.build_all(corp.bundle, "c19", True)
    rnd.shuffle(msm)
    cases += [(i, pl) for i, _, pl, _ in msm[: (60 if quick else 400)]]
    # three-digit indices: 4076_201 with 153 coefficients, 1029 with a long string, big MSM
    ov = {"IDF035": 0, "IDF037_01": 15, "IDF038_01": 15}
    pl, _ = gen_messages.build("4076_201", corp.bundle, rnd, values="random", count="typ", overrides=ov)
    cases.append(("4076_201", pl))
    # single-level three-digit indices: > 99 cells / > 99 characters
    for mident in ("1071", "1074", "1124"):
        pl, _ = gen_messages.build(mident, corp.bundle, rnd, values="random", count="typ",
                                   mask={"DF394": ((1 << 40) - 1) << 20, "DF395": 0b111 << 20, "DF396": "full"})
        if pl:
            cases.append((mident, pl))
    for tident, ov in (("1007", {"DF029": 120}), ("1033", {"DF029": 101, "DF227": 130}), ("1029", {"DF139": 150})):
        pl, _ = gen_messages.build(tident, corp.bundle, rnd, values="random", count=3, overrides=ov)
        if pl:
            cases.append((tident, pl))
    for ident in ("1059", "1065", "4076_025", "4076_066", "1302"):  # nested groups
        if ident in corp.bundle["defs"]:
            pl, _ = gen_messages.build(ident, corp.bundle, rnd, values="random", count=12)
            if pl:
                cases.append((ident, pl))
    seen = set()
    for ident, pl in cases:
        rid, r, msg = corp.add(pl, 1, keep_msg=True, lbl=False, ident=ident)
        if msg is not None:
            r["ops"] = [message_rec.do_op(msg, "names", fields)]
            for x in r["ops"][0]["names"]:
                seen.add((ident, x["n"]))
                rep.cov["evaluations"] += 1
    rep._distinct |= {digest(list(s)) for s in seen}
    verdicts = corp.judge()
    for r in corp.recs:
        v = verdicts[r["rid"]]
        meta = corp.meta[r["rid"]]
        if v[0] != "accept":
            f = {"engine": "names", "ident": meta["ident"]}
            d = v[2]
            if v[1] == "Names" and isinstance(d, list) and len(d) >= 4 and isinstance(d[3], dict):
                f["base"] = d[1]
                f["name"] = d[0]
                f["raised"] = d[3].get("raised", "")
                f["nidx"] = len(d[2]) if isinstance(d[2], list) else 0
            rep.reject(v[1], f, de.replay_of(r, meta, v))
    rep.notes["distinct_names"] = len(seen)
    rep.notes["grouped_bases"] = len(b2["grouped"])
    r = corp.recs[0]
    rep.sample({"ident": corp.meta[1]["ident"], "names": [(x["n"], x["base"], x["idx"]) for x in r["ops"][0]["names"][:8]] if r["ops"] else []})
