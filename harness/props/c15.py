"""
C15 - identity is the transmitted message number; unknown types are preserved.

 (A) TLC: MC_Identity - all 4096 numbers x 256 sub-types: IdentityTotal,
     Dispatch, MsmBlock, MsmCount = 49, MsmImplemented (against the tables
     exported from the working tree).
 (B) EXHAUSTIVE over headers on the real code: every one of the 4096 numbers
     (x 3 tails) and every 4076 sub-type (x 3 tails) is constructed; histories
     construct; ismsm; payload; serialize  are judged by DecodeJudge.tla:
     identity text, stub for undefined numbers (no error, payload kept, frame
     rebuilt in TLA+ equals serialize()), ismsm per MsmSpec.
 (C) for every implemented identity a complete payload: the decoded
     message-number field (DF002) equals the identity's number (judged as part
     of the attribute comparison).
"""

from .. import decode_engine as de
from .. import decode_rec, gen_messages, message_rec, tlc
from ..common import digest, rng

FINISH = dict(
    level="model_checking",
    rule="cases = headers (number x sub-type x tail) and complete payloads judged by TLC; distinct = payload digest; "
    "non-trivial = all (every header is a distinct point of the quantifier); exhaustive over the 4096 numbers and 256 sub-types",
)

MC_CFG = """SPECIFICATION ISpec
CONSTANTS
  Fields <- MFields
  Defs <- MDefs
  TableOf <- MTable
INVARIANT IdentityTotal
INVARIANT Dispatch
INVARIANT MsmBlock
INVARIANT MsmCount
INVARIANT MsmImplemented
CHECK_DEADLOCK FALSE
"""


def run(tier, rep):
    quick = tier == "quick"
    rep.assumptions += ["TLC 1.8", "the 49 MSM numbers are 107x..113x, x = 1..7 (RTCM 10403.3)"]
    corp = de.Corpus(rep)
    res = tlc.run("MC_Identity", MC_CFG, env={"VERIF_TABLES": corp.tables}, workers=4, heap="1g")
    if res.invariant:
        rep.reject("Spec:" + res.invariant, {"engine": "tables"}, {"tlc_tail": res.out[-1500:]})
    else:
        tlc.must_ok(res, "MC_Identity")
    rep.add_tlc(res)

    from pyrtcm.rtcmtypes_core import RTCM_DATA_FIELDS as fields  # noqa: N811

    rnd = rng("c15")
    ops = ("ismsm", "payload", "serialize")
    n = 0
    for mid in range(4096):
        subs = range(256) if mid == 4076 else [None]
        for sub in subs:
            tails = [b"", bytes([rnd.randrange(256)]), bytes(rnd.randrange(256) for _ in range(5))]
            if quick and mid != 4076:
                tails = [tails[(mid + k) % 3] for k in range(2)]
            for tail in tails:
                if sub is None:
                    pl = bytes([mid >> 4, ((mid & 0xF) << 4) | rnd.randrange(16)]) + tail
                else:
                    pl = bytes([mid >> 4, ((mid & 0xF) << 4) | (rnd.randrange(8) << 1) | (sub >> 7), ((sub & 0x7F) << 1) | rnd.randrange(2)]) + tail
                rid, r, msg = corp.add(pl, 1, keep_msg=True, ident=str(mid) if sub is None else f"4076_{sub:03d}", kind="header")
                n += 1
                if msg is not None:
                    r["sd"] = ""
                    r["ops"] = [message_rec.do_op(msg, op, fields) for op in ops]
    for ident, pn, pl, enc in gen_messages.corpus(corp.bundle, "c15", per_ident=1):
        rid, r, msg = corp.add(pl, 1, keep_msg=True, lbl=False, ident=ident, kind="complete")
        if msg is not None:
            r["ops"] = [message_rec.do_op(msg, op, fields) for op in ops]
    # payloads that look like a whole frame / whose integer value is special
    from .. import stream_corpus

    for pl in stream_corpus.framelike_payloads(rnd) + stream_corpus.special_int_payloads(rnd) + stream_corpus.texty_payloads(corp.bundle, rnd, 24):
        rid, r, msg = corp.add(pl, 1, keep_msg=True, lbl=False, ident="special", kind="header")
        if msg is not None:
            r["ops"] = [message_rec.do_op(msg, op, fields) for op in ops]
    # implemented MSM numbers with MANY cells (more than the 64 a real receiver would send)
    from .. import msm_corpus

    for ident, shape, pl, enc in msm_corpus.build_all(corp.bundle, "c15", True):
        if shape in ("manysat", "dense") and enc.ints.get("NSat", 0) * enc.ints.get("NSig", 0) > 40:
            rid, r, msg = corp.add(pl, 1, keep_msg=True, lbl=False, ident=ident, kind="complete")
            if msg is not None:
                r["ops"] = [message_rec.do_op(msg, op, fields) for op in ops]
    verdicts = corp.judge()
    stubs = 0
    for r in corp.recs:
        v = verdicts[r["rid"]]
        meta = corp.meta[r["rid"]]
        rep.case(digest(bytes(r["p"])))
        stubs += v[1] == "Stub"
        if v[0] != "accept":
            rep.reject(v[1], {"engine": "message", "ident": meta["ident"], "kind": meta["kind"], "len": len(r["p"])}, de.replay_of(r, meta, v))
        elif meta["kind"] == "complete" and v[1] != "Message":
            rep.reject("CompleteMessageRejected", {"engine": "decode", "ident": meta["ident"]}, de.replay_of(r, meta, v))
    rep.notes["headers"] = n
    rep.notes["stubs"] = stubs
    rep.cov["exhaustive"] = True
    r = corp.recs[5]
    rep.sample({"payload_hex": bytes(r["p"]).hex(), "identity": r["ident"], "ops": {o["op"]: (o["flag"] if o["op"] == "ismsm" else bytes(o["bytes"]).hex()) for o in r["ops"]}, "verdict": verdicts[r["rid"]][1]})
