"""
C02 - no valid frame is lost, duplicated or reordered on well-formed mixed input.

 (A) TLC: MC_Framer, items mode - every sequence of up to N items drawn from
     {valid frame with payload 0..2 bytes (known / unknown number, the
     zero-length frame), NMEA sentence, UBX frame whose payload holds sync
     bytes, inert noise}, every option combination: NoLoss, DebtSettled,
     NoStarve, Terminates (iteration ends only at the real end of data).
 (B) FramerTrace.tla validation of real executions over generated item
     sequences with real message types, lengths 0 and 1023, back-to-back
     unknown types, over BytesIO, BufferedReader and socket-backed streams
     (random segmentation through the reader's own socket wrapping): every
     request and follow-up conforms, the stream is drained, iteration ends with
     end of data.
 (C) direct clause on the same runs: the delivered raw frames equal, byte for
     byte and in order, the frames the generator emitted that carry a number.
"""

from .. import decode_engine as de
from .. import framer_engine as fe
from .. import gen_streams, sockdouble, stream_corpus
from ..common import digest, rng
from ..decode_rec import frame_of as frame_of_

FINISH = dict(
    level="model_checking",
    rule="cases = reader executions over well-formed item sequences x stream kind x options, validated by TLC; "
    "distinct = digest of (stream, kind, options); non-trivial = at least two frames and one foreign item",
)


def run(tier, rep):
    quick = tier == "quick"
    rep.assumptions += ["TLC 1.8", "generator-emitted frame list is used for the direct clause (C); a generator bug would be a machinery bug"]
    bundle = de.real_bundle()
    fe.mc(rep, "items", 3 if quick else 6, maxpay=2, damage=False, optset="OptCore" if quick else "OptAll", bundle=bundle)
    rnd = rng("c02")
    pool = stream_corpus.payload_pool(bundle, "c02") + stream_corpus.special_payloads(bundle, rnd) + stream_corpus.syncy_payloads(rnd, 20)
    von, voff = stream_corpus.validate_values()
    tr = fe.Traces(rep)
    n = 48 if quick else 800
    for i in range(n):
        kind = ["bytesio", "buffered", "socket", "scripted", "pipe"][i % 5]
        data, items = gen_streams.mixed_stream(rnd, pool, rnd.randint(3, 16), well_formed=True, dmg=0.0, crlf_only=(kind == "socket"))
        parsed = rnd.random() < 0.8
        quit = rnd.choice([0, 1, 2])
        seg = None
        if kind == "socket":
            mode = rnd.choice(["critical", "critical", "small", "mixed", "random", "all"])
            seg = sockdouble.critical_segmentation(rnd, [it[1] for it in items]) if mode == "critical" else sockdouble.segmentation(rnd, len(data), mode)
        want = [it[1] for it in items if it[0] == "frame"] if parsed else [it[1] for it in items if it[0] in ("frame", "frame0")]
        tr.add(data, kind=kind, validate=rnd.choice(von + voff), parsed=parsed, quit=quit, seg=seg, bufsize=rnd.choice([7, 512, 4096, 4096]),
               rnd=rnd, use_iter=bool(i % 2), want=want, nitems=len(items), nframes=len(want))
    # large but legal: more than a thousand consecutive foreign items between two frames, and
    # thousands of frames through one reader object
    f1, f2 = frame_of_(pool[0]), frame_of_(pool[1])
    for kind_, filler in (("nmea", gen_streams.NMEA_OK[1]), ("ubx", gen_streams.ubx(rnd, 4))):
        data = f1 + filler * (1300 if quick else 3000) + f2
        tr.add(data, kind="bytesio", validate=1, parsed=True, quit=1, rnd=rnd, want=[f1, f2], nitems=1302, nframes=2)
    many = [frame_of_(rnd.choice(pool[:20])) for _ in range(1500 if quick else 6000)]
    tr.add(b"".join(many), kind="buffered", validate=1, parsed=False, quit=1, rnd=rnd, want=many, nitems=len(many) + 1, nframes=len(many))
    # frames whose CRC bytes are zero / leading zeros / all ones / sync and foreign header bytes / CR LF
    for kind_ in ("bytesio", "scripted", "socket"):
        data, frames = stream_corpus.crc_target_stream(bundle, rnd, pool)
        seg = sockdouble.critical_segmentation(rnd, frames) if kind_ == "socket" else None
        tr.add(data, kind=kind_, validate=1, parsed=kind_ != "scripted", quit=rnd.choice([0, 1, 2]), seg=seg, rnd=rnd, want=frames,
               nitems=len(frames) + 1, nframes=len(frames))
    verdicts = tr.judge(always_out=True)
    for tid, v in verdicts.items():
        m = tr.meta[tid]
        rep.case(digest([m["data"].hex(), m["kind"], m["quit"], m["parsed"], m["validate"]]), nontrivial=m["nframes"] >= 2 and m["nitems"] > m["nframes"])
        facts = {"engine": "framer", "kind": m["kind"], "quit": m["quit"], "parsed": m["parsed"]}
        if v[0] != "accept":
            rep.reject(v[1], {**facts, "detail": str(v[3])[:60]}, tr.replay_of(tid, v))
            continue
        got = [bytes(r[0]) for r in tr.results[tid]]
        last = tr.traces[tid - 1]["ev"][-1]
        if m["quit"] == 2 and last["then"] != "eof":
            continue  # (raise mode with an undecodable zero-length frame: the client loop in run_reader continues anyway)
        if got != m["want"]:
            rep.reject("DeliveredNotEmitted", facts, {**tr.replay_of(tid, v), "emitted": len(m["want"]), "delivered": len(got),
                                                      "first_diff": next((i for i, (a, b) in enumerate(zip(got, m["want"])) if a != b), min(len(got), len(m["want"])))})
        if last["then"] != "eof":
            rep.reject("NoCleanEnd", facts, tr.replay_of(tid, v))
    # the reader's own socket wrapping (RTCMReader(socket)): delivered = emitted, no recording
    from pyrtcm import RTCMReader

    for i in range(12 if quick else 100):
        data, items = gen_streams.mixed_stream(rnd, pool, rnd.randint(3, 14), well_formed=True, crlf_only=True)
        seg = sockdouble.critical_segmentation(rnd, [it[1] for it in items]) if i % 2 else sockdouble.segmentation(rnd, len(data), "mixed")
        sock = sockdouble.ScriptedSocket(data, seg)
        try:
            got = [bytes(r) for r, _ in RTCMReader(sock, bufsize=rnd.choice([7, 512, 4096]), quitonerror=0)]
        finally:
            sock.close()
        want = [it[1] for it in items if it[0] == "frame"]
        rep.case(digest([data.hex(), str(seg), "autowrap"]))
        if got != want:
            rep.reject("DeliveredNotEmitted", {"engine": "framer", "kind": "socket-autowrap"}, {"stream_hex": data.hex(), "recv_script": seg, "emitted": len(want), "delivered": len(got)})
    t = tr.traces[2]
    rep.sample({"kind": tr.meta[3]["kind"], "items": tr.meta[3]["nitems"], "frames_emitted": tr.meta[3]["nframes"],
                "delivered": len(tr.results[3]), "verdict": verdicts[3][1]})
