"""
C14 - parsed messages are immutable.

 (A) TLC: Lifecycle.tla - the object is mutable only between constructor
     entry and return; action property Frozen ([][frozen => unchanged]) and
     AssignRefused over every name of a name universe (public, derived,
     private, fresh) and every order of operations.
 (B) histories  construct(p); setattr(n1, v1); ...; setattr(nk, vk)  on real
     messages of every kind (definitions, stubs, MSM, text, 4076), names drawn
     from every public attribute, the private bookkeeping names, the
     properties and fresh names; each op is judged by DecodeJudge.tla: it must
     raise RTCMMessageError and the snapshot after it (payload, identity,
     ordered attributes) must still equal the state the SPEC derives from the
     payload; str / repr / serialize digests must be unchanged.
"""

from .. import decode_engine as de
from .. import gen_messages, message_rec, msm_corpus, tlc
from ..common import digest, rng

FINISH = dict(
    level="model_checking",
    rule="cases = assignment attempts on live messages, each judged with a full snapshot by TLC; "
    "distinct = (payload digest, name); non-trivial = every attempt (all must be refused)",
)

LC_CFG = """SPECIFICATION Spec
CONSTANTS Names = {"DF002", "NSat", "_payload", "fresh"}
 Values = {0, 1}
 Objs = {1, 2}
PROPERTY Frozen
PROPERTY AssignRefused
INVARIANT NoObjectOnFailure
INVARIANT TypeOK
CHECK_DEADLOCK FALSE
"""

PRIVATE = ["_payload", "_payloadi", "_payblen", "_immutable", "_unknown", "_satmap", "_cellmap", "_labelmsm",
           "payload", "identity", "ismsm", "__dict__", "__class__", "fresh_name", "DF9999", "X", "NSat", "NCell", "PRN_01", "DF002"]
VALUES = [0, 1, -1, 3.5, "x", b"\x00", None, True, False, [], {}]


def run(tier, rep):
    quick = tier == "quick"
    rep.assumptions += ["TLC 1.8", "snapshot projection in harness/message_rec.py"]
    res = tlc.run("Lifecycle", LC_CFG, workers=4, heap="1g", coverage=True)
    tlc.must_ok(res, "Lifecycle")
    cov = res.action_coverage()
    if any(cov.get(a, (0, 0))[1] == 0 for a in ("BeginConstruct", "BuildSet", "Freeze", "FailConstruct", "SetAttr", "Read")):
        raise tlc.MachineryFailure(f"Lifecycle: action never taken: {cov}")
    rep.add_tlc(res)

    corp = de.Corpus(rep)
    from pyrtcm.rtcmtypes_core import RTCM_DATA_FIELDS as fields  # noqa: N811

    rnd = rng("c14")
    cases = [(i, pl) for i, _, pl, _ in gen_messages.corpus(corp.bundle, "c14", per_ident=1)]
    if quick:
        rnd.shuffle(cases)
        cases = cases[:70]
    msm = msm_corpus.build_all(corp.bundle, "c14", True)
    rnd.shuffle(msm)
    cases += [(i, pl) for i, _, pl, _ in msm[: (20 if quick else 150)]]
    for mid in (0, 1, 1070, 1229, 2000, 4075, 4095):  # stubs
        cases.append((str(mid), bytes([mid >> 4, (mid & 0xF) << 4, rnd.randrange(256), rnd.randrange(256)])))
    cases.append(("4076_250", bytes([0xFE, 0xC1, 0xF4, 0x00])))
    from .. import stream_corpus

    cases += [("special", pl) for pl in stream_corpus.special_int_payloads(rnd) + stream_corpus.framelike_payloads(rnd)]
    nops = 0
    libnames = message_rec.library_names()
    rep.notes["library_names"] = len(libnames)
    # the same payload is constructed again later (and its later copies are attacked too)
    cases = cases + [c for c in cases if c[0] in ("1005", "1007", "1008", "1029", "1033", "1230", "1077", "4076_201") or rnd.random() < 0.25]
    for ident, pl in cases:
        lab = rnd.choice([1, 2])
        rid, r, msg = corp.add(pl, lab, keep_msg=True, ident=ident)
        if msg is None:
            continue
        r["sd"] = message_rec.state_digest(msg)
        pubs = [k for k, _ in __import__("harness.decode_rec", fromlist=["x"]).public_attrs(msg)]
        names = rnd.sample(pubs, min(len(pubs), 3 if quick else 6)) + rnd.sample(PRIVATE, 4 if quick else 8)
        # names the library's own code mentions (an exemption in the guard has to name its attribute)
        under = [n for n in libnames if n.startswith("_") and not n.startswith("__")]
        names += rnd.sample(under, min(len(under), 6 if quick else 20)) + rnd.sample(libnames, 3 if quick else 10)
        rnd.shuffle(names)
        ops = []
        for n in names:
            ops.append(message_rec.do_op(msg, "setattr", fields, labelmsm=lab, name=n, value=rnd.choice(VALUES)))
            rep.case(digest([pl.hex(), n]))
            nops += 1
        r["ops"] = ops
    verdicts = corp.judge()
    for r in corp.recs:
        v = verdicts[r["rid"]]
        meta = corp.meta[r["rid"]]
        if v[0] != "accept":
            f = {"engine": "message", "ident": meta["ident"]}
            d = v[2]
            if v[1] == "Frozen" and isinstance(d, list) and d:
                f["name"] = d[0]
                f["why"] = d[1] if len(d) > 1 else ""
            rep.reject(v[1], f, {**de.replay_of(r, meta, v), "ops": [(o["name"], o["raised"]) for o in r["ops"]]})
    # (B') a FAILED operation first, then the assignment: a message whose payload is too long to be
    #      framed (>= 65536 bytes: only the constructor can build it) - serialize() fails, and the
    #      message must be as frozen afterwards as before
    from pyrtcm import RTCMMessage as _RM
    from pyrtcm.exceptions import RTCMMessageError as _RME

    for mid, size in ((2000, 65536), (1005, 70000), (4095, 65537)):
        body = bytes([mid >> 4, (mid & 0xF) << 4]) + bytes((i * 7 + mid) & 0xFF for i in range(size - 2))
        try:
            big_msg = _RM(payload=body)
        except Exception:  # pylint: disable=broad-except
            continue        # (a library that refuses such a payload has nothing to keep frozen)
        before = (bytes(big_msg.payload), str(big_msg.identity), str(big_msg)[:200])
        for attempt in range(2):
            try:
                big_msg.serialize()
            except Exception:  # pylint: disable=broad-except
                pass
            for name, value in (("DF002", 9), ("_payload", b"xx"), ("brand_new", 1), ("_immutable", False), ("DF003", 0)):
                rep.case(digest(["oversize", mid, size, attempt, name]))
                try:
                    setattr(big_msg, name, value)
                    outcome = "accepted"
                except _RME:
                    outcome = None
                except Exception as err:  # pylint: disable=broad-except
                    outcome = "raised " + type(err).__name__
                after = (bytes(big_msg.payload), str(big_msg.identity), str(big_msg)[:200])
                if outcome or after != before:
                    rep.reject("Frozen", {"engine": "message", "ident": str(mid), "name": name, "why": "after a failed serialize()"},
                               {"payload_len": size, "message_number": mid, "after_failed_serialize": True, "name": name,
                                "outcome": outcome or "state changed"})
                    break
    # (C) attacks on finished messages WHILE other threads are inside a constructor
    #     (Lifecycle.tla: SetAttr(o1) is refused also when phase[o2] = "building")
    import sys
    import threading

    from pyrtcm import RTCMMessage
    from pyrtcm.exceptions import RTCMMessageError

    big = [pl for _, pl in cases if len(pl) > 150][:6] or [cases[0][1]]
    victims = [m for m in corp.msgs.values() if m is not None][:8]
    digests = [message_rec.state_digest(m) for m in victims]
    stop = threading.Event()

    def builder():
        while not stop.is_set():
            for pl in big:
                try:
                    RTCMMessage(payload=pl)
                except Exception:  # pylint: disable=broad-except
                    pass

    old = sys.getswitchinterval()
    sys.setswitchinterval(1e-6)
    ths = [threading.Thread(target=builder) for _ in range(2)]
    for t in ths:
        t.start()
    accepted = []
    try:
        for k in range(6000 if quick else 60000):
            m = victims[k % len(victims)]
            name = ["DF002", "_payload", "fresh_name", "_immutable", "payload"][k % 5]
            try:
                setattr(m, name, k)
                accepted.append((name, "accepted"))
            except RTCMMessageError:
                pass
            except BaseException as err:  # pylint: disable=broad-except
                accepted.append((name, type(err).__name__))
            if accepted:
                break
    finally:
        stop.set()
        for t in ths:
            t.join()
        sys.setswitchinterval(old)
    rep.cov["evaluations"] += k + 1
    if accepted or [message_rec.state_digest(m) for m in victims] != digests:
        rep.reject("FrozenWhileOthersConstruct", {"engine": "threads", "name": accepted[0][0] if accepted else "?"},
                   {"engine": "threads", "what": "assignment on a finished message while other threads were constructing messages",
                    "outcome": accepted[:3], "attempts": k + 1})
    rep.notes["concurrent_attempts"] = k + 1
    rep.notes["assignment_attempts"] = nops
    r = next(r for r in corp.recs if r["ops"])
    rep.sample({"payload_hex": bytes(r["p"]).hex()[:60], "attempts": [(o["name"], o["raised"]) for o in r["ops"]]})
