"""
X01 - behaviour of the specification BEYOND the 19 listed properties (not in
MANIFEST.json: nothing here is a verdict on a listed property).

 * str(msg): identity, every public attribute as name=value in decode order,
   Not_Yet_Implemented marker exactly for stubs (Message.tla: StrNames).
 * get_bit / len2bytes helpers against Bits.BitAt / Message.Len2Bytes.
 * escapeall / hextable shape (harness-level, documented format).
 * SocketWrapper.write passes through to socket.send; in_waiting = Len(buffer).
 * iterator protocol: iterating a reader yields exactly what repeated read()
   calls return until (None, None) (also exercised in C01/C02 traces).
"""

import io

from .. import decode_engine as de
from .. import gen_messages, message_rec, sockdouble
from ..common import digest, rng
from ..decode_rec import frame_of

FINISH = dict(level="model_checking", rule="cases = operations judged by TLC (strshape, get_bit, len2bytes, tow2utc) + harness-level format checks; distinct by payload digest")


def run(tier, rep):
    quick = tier == "quick"
    corp = de.Corpus(rep)
    from pyrtcm.rtcmtypes_core import RTCM_DATA_FIELDS as fields  # noqa: N811

    rnd = rng("x01")
    cases = [(i, pl) for i, _, pl, _ in gen_messages.corpus(corp.bundle, "x01", per_ident=1 if quick else 3)]
    for mid in (0, 999, 1070, 2000, 4095):
        cases.append((str(mid), bytes([mid >> 4, (mid & 0xF) << 4, 1, 2, 3])))
    for ident, pl in cases:
        rid, r, msg = corp.add(pl, 1, keep_msg=True, lbl=False, ident=ident)
        if msg is not None:
            r["ops"] = [message_rec.do_op(msg, op, fields) for op in ("strshape", "get_bit", "len2bytes", "tow2utc")]
    dv = corp.judge()
    for r in corp.recs:
        v = dv[r["rid"]]
        rep.case(digest(bytes(r["p"])))
        if v[0] != "accept":
            rep.reject(v[1], {"engine": "extra", "ident": corp.meta[r["rid"]]["ident"]}, de.replay_of(r, corp.meta[r["rid"]], v))
    # escapeall / hextable
    from pyrtcm import RTCMReader
    from pyrtcm.rtcmhelpers import escapeall, hextable
    from pyrtcm.socketwrapper import SocketWrapper

    for _ in range(50):
        b = bytes(rnd.randrange(256) for _ in range(rnd.randint(0, 40)))
        rep.case(digest(["esc", b.hex()]))
        if escapeall(b) != "b'" + "".join(f"\\x{x:02x}" for x in b) + "'":
            rep.reject("EscapeAll", {"engine": "extra"}, {"bytes": b.hex(), "got": escapeall(b)})
        cols = rnd.choice([4, 8, 16])
        ht = hextable(b, cols)
        lines = ht.splitlines()
        hexs = "".join(ln.split(": ", 1)[1].split("  |")[0].replace(" ", "") for ln in lines) if lines else ""
        if hexs != b.hex() or len(lines) != (len(b) + 2 * cols - 1) // (2 * cols):
            rep.reject("HexTable", {"engine": "extra"}, {"bytes": b.hex(), "cols": cols, "got": ht})
    # SocketWrapper.write / in_waiting
    for _ in range(20):
        data = bytes(rnd.randrange(256) for _ in range(rnd.randint(1, 60)))
        sock = sockdouble.ScriptedSocket(data, sockdouble.segmentation(rnd, len(data), "small"))
        try:
            w = SocketWrapper(sock, bufsize=rnd.choice([3, 64]))
            out = bytes(rnd.randrange(256) for _ in range(rnd.randint(0, 20)))
            n = w.write(out)
            before = bytes(w.buffer)
            rep.case(digest(["write", data.hex(), out.hex()]))
            if n != len(out) or sock.sent != [out] or bytes(w.buffer) != before or w.in_waiting() != len(w.buffer):
                rep.reject("WritePassThrough", {"engine": "extra"}, {"sent": [x.hex() for x in sock.sent], "returned": n})
        finally:
            sock.close()
    # iterator protocol = repeated read()
    pool = [pl for _, pl in cases[:30]]
    for _ in range(10):
        data = b"".join(frame_of(rnd.choice(pool)) for _ in range(rnd.randint(0, 6)))
        a = [(bytes(r), str(p)) for r, p in RTCMReader(io.BytesIO(data))]
        rd = RTCMReader(io.BytesIO(data))
        b = []
        while True:
            r, p = rd.read()
            if r is None and p is None:
                break
            b.append((bytes(r), str(p)))
        rep.case(digest(["iter", data.hex()]))
        if a != b:
            rep.reject("IteratorIsRepeatedRead", {"engine": "extra"}, {"stream_hex": data.hex()})
    r = corp.recs[0]
    rep.sample({"payload_hex": bytes(r["p"]).hex()[:40], "str_names": r["ops"][0]["snames"][:6] if r["ops"] else []})
