"""
C09 - MSM masks map to the right satellites, signals and cells.

 (A) TLC: MC_MsmMaps - declarative mapping (i-th set bit, satellite-major
     cells) = operational three-loop mapping, for ALL masks up to 4 x 3;
     MC_DecodeMini - CountsArePopcounts / CellOrder / CellsInRange on a mini
     MSM definition.
 (B) every implemented MSM identity x mask shapes (empty masks, one bit at
     every satellite / signal position incl. satellite 64 and all reserved
     signal IDs, dense, random) x both label options, decoded by the real
     code and judged by DecodeJudge.tla against the pinned StdMsm.tla
     (RTCM 10403.3 numbering and RINEX codes; N/A marker for reserved IDs).
"""

from .. import decode_engine as de
from .. import msm_corpus, tlc
from ..common import MachineryFailure, digest

FINISH = dict(
    level="model_checking",
    rule="cases = MSM payloads (identity x mask shape x label option) decoded by the real code and judged by TLC; "
    "distinct = (payload digest, option); non-trivial = at least one satellite or signal bit set",
)

MM_CFG = """SPECIFICATION Spec
CONSTANTS SatW = %d
 SigW = %d
INVARIANT SatsAgree
INVARIANT SigsAgree
INVARIANT CellsAgree
INVARIANT Counts
INVARIANT SatMajor
CHECK_DEADLOCK FALSE
"""


def facts_of(rec, meta, v):
    f = {"engine": "decode", "ident": meta["ident"], "shape": meta["shape"], "labelmsm": meta["labelmsm"]}
    d = v[2]
    if isinstance(d, list) and d and d[0] == "attr" and isinstance(d[2], dict):
        f["attr"] = d[2].get("n", "").split("_")[0]
        f["expected_kind"] = d[2].get("k", "")
        f["sat_or_sig_id"] = d[2].get("id", 0)
        if isinstance(d[3], dict):
            f["observed"] = d[3].get("t", "")
    return f


def run(tier, rep):
    quick = tier == "quick"
    rep.assumptions += ["StdMsm.tla pinned from RTCM 10403.3 (amendment-dependent IDs are lenient: code or N/A)", "TLC 1.8"]
    res = tlc.run("MC_MsmMaps", MM_CFG % ((4, 3) if quick else (5, 3)), workers=8, heap="1g")
    tlc.must_ok(res, "MC_MsmMaps")
    rep.add_tlc(res)
    de.mc_mini(rep, 10 if quick else 12, liveness=False)

    corp = de.Corpus(rep)
    n_msm = len(msm_corpus.msm_idents(corp.bundle))
    if n_msm < 49:
        # the property speaks of 49 implemented MSM types; fewer is a table regression
        rep.reject("MsmTypesMissing", {"engine": "tables", "count": n_msm}, {"msm_idents": msm_corpus.msm_idents(corp.bundle)})
    for ident, shape, pl, enc in msm_corpus.build_all(corp.bundle, "c09", quick):
        for opt in (1, 2):
            corp.add(pl, opt, lbl=True, ident=ident, shape=shape, nsat=enc.ints.get("NSat", 0), nsig=enc.ints.get("NSig", 0))
    verdicts = corp.judge()
    for key, a, b in corp.conflicts:
        rep.reject("BandLabelInconsistent", {"engine": "decode", "gnss": key[1], "sigid": key[2]}, {"labels": [a, b], "key": list(key)})
    for r in corp.recs:
        v = verdicts[r["rid"]]
        meta = corp.meta[r["rid"]]
        rep.case(digest([r["p"], meta["labelmsm"]]), nontrivial=(meta["nsat"] + meta["nsig"]) > 0)
        if v[0] != "accept":
            rep.reject(v[1], facts_of(r, meta, v), de.replay_of(r, meta, v))
        elif v[1] != "Message":
            rep.reject("CompleteMessageRejected", {"engine": "decode", "ident": meta["ident"], "shape": meta["shape"]}, de.replay_of(r, meta, v))
    rep.notes["msm_identities"] = n_msm
    r = corp.recs[0]
    rep.sample({"ident": corp.meta[1]["ident"], "shape": corp.meta[1]["shape"], "labelmsm": 1,
                "labels": [(a["n"], a["t"]) for a in r["attrs"] if a["n"].startswith(("PRN", "CELL"))][:6], "verdict": verdicts[1][1]})
