"""
C10 - message layouts conform to the published standards and to each other.

 (A) TLC: Layout.tla over the AST of EVERY definition exported from the
     working tree, against the pinned StdLayout.tla (RTCM 10403.3 / IGS SSR
     v1.00 length formulas, written independently of the repository):
     WellFormed, FieldsDefined, CountersPrecede, BitsMatchStd (all count
     vectors of a box incl. 0 and maxima), SiblingsAgree (combined = orbit ++
     clock for GPS, GLONASS and the six IGS constellations; extended contains
     basic; one MSM layout per level; 4076 families identical), DispatchTotal.
     TLC runs with -continue so that every offending identity is reported.
 (B) binding to behaviour: for every identity a message laid out with the
     count vector for which Layout printed the pinned length is decoded by the
     REAL code at exactly ceil(bits/8) bytes (must be accepted; judged by
     DecodeJudge) and one byte shorter (must be rejected): the code occupies
     exactly the bits the standard specifies.
"""

import re

from .. import decode_engine as de
from .. import decode_rec, gen_messages, tlc
from ..common import MachineryFailure, digest, rng

FINISH = dict(
    level="model_checking",
    rule="cases = (identity, predicate) evaluations by TLC over the exported tables + per identity the exact-size and "
    "one-byte-short decodes on the real code; distinct by (identity, case); non-trivial = identity with a pinned length",
)

CFG = """SPECIFICATION Spec
INVARIANT WellFormed
INVARIANT FieldsDefined
INVARIANT CountersPrecede
INVARIANT BitsMatchStd
INVARIANT DispatchTotal
INVARIANT SiblingsAgree
INVARIANT PrintStd
CHECK_DEADLOCK FALSE
"""
INVS = ["WellFormed", "FieldsDefined", "CountersPrecede", "BitsMatchStd", "DispatchTotal", "SiblingsAgree"]


def depth_counters(ast, depth=0, acc=None):
    acc = acc if acc is not None else {}
    for n in ast:
        if n["k"] == "grp":
            if n["ct"] == "attr":
                acc.setdefault(n["ca"], depth)
            depth_counters(n["body"], depth + 1, acc)
        elif n["k"] == "opt":
            acc.setdefault(n["ca"], -1)
            depth_counters(n["body"], depth, acc)
    return acc


def run(tier, rep):
    quick = tier == "quick"
    rep.assumptions += ["StdLayout.tla: types marked prov=tree (1022, 1024, 1300-1305) are regression oracles only", "TLC 1.8"]
    bundle = de.real_bundle()
    b2 = dict(bundle)
    b2["hdr"] = {i: {"mid": int(i.split("_")[0]), "sub": int(i.split("_")[1]) if "_" in i else 0} for i in bundle["defs"]}
    tp = decode_rec.write_tables(b2, "layout.json")
    res = tlc.run("Layout", CFG, env={"VERIF_TABLES": tp}, workers=1, heap="1g", extra=["-continue"])
    if res.error:
        raise MachineryFailure("Layout TLC failure: " + str(res.error) + "\n" + res.out[-1500:])
    rep.add_tlc(res)
    viol = re.findall(r'Invariant (\w+) is violated.*?id = "([^"]+)"', res.out, re.S)
    std = {t[1]: (t[2], t[3]) for t in res.tuples("STD")}
    if len(std) != len(bundle["defs"]):
        raise MachineryFailure(f"Layout: {len(std)} identities evaluated, {len(bundle['defs'])} defined")
    for ident in bundle["defs"]:
        for inv in INVS:
            rep.case(digest([ident, inv]), nontrivial=std[ident][0] >= 0)
    for inv, ident in viol:
        rep.reject("Layout:" + inv, {"engine": "layout", "ident": ident, "invariant": inv},
                   {"engine": "layout", "identity": ident, "invariant": inv, "definition": bundle["defs"].get(ident)})
    rep.notes["identities"] = len(std)
    rep.notes["oracle_provenance"] = {k: sum(1 for v in std.values() if v[1] == k) for k in {v[1] for v in std.values()}}

    # (B) exact size on the real code
    rnd = rng("c10")
    corp = de.Corpus(rep, bundle)
    for ident, (bits, prov) in sorted(std.items()):
        if bits < 0:
            continue
        ast = bundle["defs"][ident]
        dc = depth_counters(ast)
        count = {name: (2 if d == 0 else 1) for name, d in dc.items() if d >= 0}
        ov = {name: 1 for name, d in dc.items() if d == -1}          # optional groups present
        mask = "random"
        if bundle["table"][ident] == "msm":
            mask = {"DF394": 0b111 << 40, "DF395": 0b11 << 10, "DF396": 0b101101}
        if ident == "4076_201":
            count = {}
            ov = {"IDF035": 1, "IDF037_01": 0, "IDF038_01": 0, "IDF037_02": 0, "IDF038_02": 0}
        pl, enc = gen_messages.build(ident, bundle, rnd, values="random", count=count or "typ", mask=mask, overrides=ov)
        if pl is None:
            continue
        nbytes = (bits + 7) // 8
        exact = (pl + bytes(nbytes))[:nbytes]
        corp.add(exact, 1, lbl=False, ident=ident, kind="exact", bits=bits, encbits=enc.nbits, prov=prov)
        corp.add(exact[:-1], 1, lbl=False, ident=ident, kind="short", bits=bits, encbits=enc.nbits, prov=prov)
    dv = corp.judge()
    for r in corp.recs:
        v = dv[r["rid"]]
        m = corp.meta[r["rid"]]
        rep.case(digest([m["ident"], m["kind"]]))
        facts = {"engine": "layout+decode", "ident": m["ident"], "kind": m["kind"], "prov": m["prov"]}
        if v[0] != "accept":
            rep.reject(v[1], facts, de.replay_of(r, m, v))
        elif m["kind"] == "exact" and r["out"] != "msg":
            rep.reject("StdSizeNotAccepted", facts, {**de.replay_of(r, m, v), "std_bits": m["bits"], "definition_bits": m["encbits"]})
        elif m["kind"] == "short" and r["out"] == "msg":
            rep.reject("ShorterThanStdAccepted", facts, {**de.replay_of(r, m, v), "std_bits": m["bits"], "definition_bits": m["encbits"]})
    rep.sample({"identity": "1004", "pinned_bits_at_N2": std.get("1004", ("?",))[0], "invariants": INVS})
    rep.sample({"identity": "4076_063", "pinned_bits_at_N2": std.get("4076_063", ("?",))[0], "provenance": std.get("4076_063", ("", "?"))[1]})
