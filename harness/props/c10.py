"""
C10 - message layouts conform to the published standards and to each other.

 (A) TLC: Layout.tla over the AST of EVERY definition exported from the
     working tree, against the pinned StdLayout.tla (RTCM 10403.3 / IGS SSR
     v1.00 length formulas, written independently of the repository):
     WellFormed, FieldsDefined, CountersPrecede, BitsMatchStd (all count
     vectors of a box incl. 0 and maxima), SiblingsAgree (combined = orbit ++
     clock for GPS, GLONASS and the six IGS constellations; extended contains
     basic; one MSM layout per level; 4076 families identical), DispatchTotal.
     TLC runs with -continue so that every offending identity is reported.
 (B) binding to behaviour: for every identity a message laid out with the
     count vector for which Layout printed the pinned length is decoded by the
     REAL code at exactly ceil(bits/8) bytes (must be accepted; judged by
     DecodeJudge) and one byte shorter (must be rejected): the code occupies
     exactly the bits the standard specifies.
"""

import re

from .. import decode_engine as de
from .. import decode_rec, gen_messages, tlc
from ..common import MachineryFailure, digest, rng

FINISH = dict(
    level="model_checking",
    rule="cases = (identity, predicate) evaluations by TLC over the exported tables + per identity the exact-size and "
    "one-byte-short decodes on the real code; distinct by (identity, case); non-trivial = identity with a pinned length",
)

CFG = """SPECIFICATION Spec
INVARIANT WellFormed
INVARIANT FieldsDefined
INVARIANT CountersPrecede
INVARIANT BitsMatchStd
INVARIANT DispatchTotal
INVARIANT SiblingsAgree
INVARIANT PrintStd
INVARIANT PrintNone
CHECK_DEADLOCK FALSE
"""
INVS = ["WellFormed", "FieldsDefined", "CountersPrecede", "BitsMatchStd", "DispatchTotal", "SiblingsAgree"]


def depth_counters(ast, depth=0, acc=None):
    acc = acc if acc is not None else {}
    for n in ast:
        if n["k"] == "grp":
            if n["ct"] == "attr":
                acc.setdefault(n["ca"], depth)
            depth_counters(n["body"], depth + 1, acc)
        elif n["k"] == "opt":
            acc.setdefault(n["ca"], -1)
            depth_counters(n["body"], depth, acc)
    return acc


def run(tier, rep):
    quick = tier == "quick"
    rep.assumptions += ["StdLayout.tla: types marked prov=tree (1022, 1024, 1300-1305) are regression oracles only", "TLC 1.8"]
    bundle = de.real_bundle()
    b2 = dict(bundle)
    b2["hdr"] = {i: {"mid": int(i.split("_")[0]), "sub": int(i.split("_")[1]) if "_" in i else 0} for i in bundle["defs"]}
    tp = decode_rec.write_tables(b2, "layout.json")
    res = tlc.run("Layout", CFG, env={"VERIF_TABLES": tp}, workers=1, heap="1g", extra=["-continue"])
    if res.error:
        raise MachineryFailure("Layout TLC failure: " + str(res.error) + "\n" + res.out[-1500:])
    rep.add_tlc(res)
    viol = re.findall(r'Invariant (\w+) is violated.*?id = "([^"]+)"', res.out, re.S)
    std = {}
    for t in res.tuples("STD"):
        std.setdefault(t[1], []).append((t[3], t[4], t[5]))
    if len(std) != len(bundle["defs"]):
        raise MachineryFailure(f"Layout: {len(std)} identities evaluated, {len(bundle['defs'])} defined")
    for ident in bundle["defs"]:
        for inv in INVS:
            rep.case(digest([ident, inv]), nontrivial=std[ident][0][1] >= 0)
    for inv, ident in viol:
        rep.reject("Layout:" + inv, {"engine": "layout", "ident": ident, "invariant": inv},
                   {"engine": "layout", "identity": ident, "invariant": inv, "definition": bundle["defs"].get(ident)})
    rep.notes["identities"] = len(std)
    provs = [v[0][2] for v in std.values()]
    rep.notes["oracle_provenance"] = {k: provs.count(k) for k in set(provs)}

    # (B) exact size on the real code, for every printed count vector
    rnd = rng("c10")
    corp = de.Corpus(rep, bundle)

    def bits_mask(width, k, rnd):
        pos = rnd.sample(range(width), k)
        return sum(1 << p for p in pos)

    for ident, vecs in sorted(std.items()):
        ast = bundle["defs"][ident]
        dc = depth_counters(ast)
        for vec, bits, prov in vecs:
            if bits < 0:
                continue
            count, ov, mask = "typ", {name: 1 for name, d in dc.items() if d == -1}, "random"
            if bundle["table"][ident] == "msm":
                nsat, nsig, ncell = vec
                mask = {"DF394": bits_mask(64, nsat, rnd), "DF395": bits_mask(32, nsig, rnd), "DF396": bits_mask(nsat * nsig, ncell, rnd) if nsat * nsig else 0}
            elif ident == "4076_201":
                lyr, n, m = vec
                ov = {"IDF035": lyr - 1}
                for i in range(1, lyr + 1):
                    ov[f"IDF037_{i:02d}"] = n - 1
                    ov[f"IDF038_{i:02d}"] = m - 1
            else:
                count = {name: (vec[0] if d == 0 else vec[1]) for name, d in dc.items() if d >= 0} or "typ"
                # a vector only applies if every counter field can hold its value
                fw = bundle["fields"]
                if isinstance(count, dict) and any(name in fw and v > (1 << fw[name]["w"]) - 1 - (1 if name == "IDF035" else 0) for name, v in count.items()):
                    continue
                if isinstance(count, dict) and vec[0] > 5 and not count:
                    continue
            pl, enc = gen_messages.build(ident, bundle, rnd, values="random", count=count, mask=mask, overrides=ov)
            if pl is None or (isinstance(count, dict) and any(enc.ints.get(n) != v for n, v in count.items() if n in enc.ints)):
                continue      # (did not fit in 1023 bytes with these counts)
            nbytes = (bits + 7) // 8
            if nbytes > 1023:
                continue
            exact = (pl + bytes(nbytes))[:nbytes]
            meta = dict(ident=ident, bits=bits, encbits=enc.nbits, prov=prov, vec=str(vec))
            corp.add(exact, 1, lbl=False, kind="exact", **meta)
            corp.add(exact[:-1], 1, lbl=False, kind="short", **meta)
    dv = corp.judge()
    for r in corp.recs:
        v = dv[r["rid"]]
        m = corp.meta[r["rid"]]
        rep.case(digest([m["ident"], m["kind"], m["vec"]]))
        facts = {"engine": "layout+decode", "ident": m["ident"], "kind": m["kind"], "prov": m["prov"], "vec": m["vec"]}
        if v[0] != "accept":
            rep.reject(v[1], facts, de.replay_of(r, m, v))
        elif m["kind"] == "exact" and r["out"] != "msg":
            rep.reject("StdSizeNotAccepted", facts, {**de.replay_of(r, m, v), "std_bits": m["bits"], "definition_bits": m["encbits"]})
        elif m["kind"] == "short" and r["out"] == "msg":
            rep.reject("ShorterThanStdAccepted", facts, {**de.replay_of(r, m, v), "std_bits": m["bits"], "definition_bits": m["encbits"]})
    rep.sample({"identity": "1004", "pinned_bits_per_vector": [(str(v[0]), v[1]) for v in std.get("1004", [])], "invariants": INVS})
    rep.sample({"identity": "4076_201", "pinned_bits_per_vector_layers_degree_order": [(str(v[0]), v[1]) for v in std.get("4076_201", [])]})
