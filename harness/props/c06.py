"""
C06 - fields are never read past the end of the payload.

 (A) TLC: NoOverrun / OkInside on every payload of the mini-definitions
     (payloads of 2, 3 (and 4) bytes: every overrun shape of every construct);
     DecodePair.tla (self-composition): PrefixMonotone and CutRule - the decode
     of a truncation is step-for-step the decode of the full payload until the
     first field that crosses the cut, where it fails.
 (B) the mini scope through the real interpreter, judged by the spec.
 (C) for complete messages of every real identity: EVERY whole-byte truncation
     that still holds the identity is decoded by the real code and judged by
     the spec (which fails on the first field crossing the cut); accepted
     decodes are compared attribute by attribute, which is what shows that no
     attribute was populated from outside the payload.
"""

from .. import decode_engine as de
from .. import gen_messages
from ..common import digest, rng

FINISH = dict(
    level="model_checking",
    rule="cases = truncated / complete payloads decoded by the real RTCMMessage and judged by DecodeJudge.tla; "
    "distinct = payload digests; non-trivial = payload strictly shorter than the bits its header announces "
    "(counted from the spec verdict 'Rejected'), plus accepted complete messages",
)


def _names(ast):
    for n in ast:
        if n["k"] == "fld":
            yield n["n"]
        elif n["k"] in ("grp", "opt"):
            yield from _names(n["body"])


def idbytes(ident):
    return 3 if ident.startswith("4076") else 2


def run(tier, rep):
    quick = tier == "quick"
    rep.assumptions += ["TLC 1.8", "value projection in harness/decode_rec.py", "generator only builds inputs; verdicts come from the spec"]
    de.mc_mini(rep, 10 if quick else 12, liveness=False)
    # two-run lemma: a whole-byte truncation behaves exactly like the full payload until the first
    # field that crosses the cut, and then fails (PrefixMonotone, CutRule)
    de.mc_pair(rep, "cut", 8 if quick else 13)
    for fb in ([4, 8] if quick else [4, 12]):
        recs, verdicts = de.judge_minis(rep, fb)
        rep.count("traces_validated_against_impl", len(recs))
        for r in recs:
            v = verdicts[r["rid"]]
            rep.case(digest(bytes(r["p"])), nontrivial=(v[1] == "Rejected"))
            if v[0] != "accept":
                rep.reject(v[1], {"engine": "mini", "ident": r.get("ident", "")}, de.replay_of(r, {"mini": True}, v))

    corp = de.Corpus(rep)
    cases = gen_messages.corpus(corp.bundle, "c06", per_ident=1 if quick else 3)
    rnd = rng("c06-cuts")
    # text-bearing types: strings with NUL code units at the start / in the middle / as padding
    textids = [i for i, ast in corp.bundle["defs"].items()
               if any(corp.bundle["fields"].get(n, {}).get("t") in ("STR", "CHA") for n in _names(ast))]
    for ident in sorted(textids):
        for pat in ("first", "middle", "pad"):
            pl, enc = gen_messages.build(ident, corp.bundle, rnd, values="random", count=6)
            if pl is None:
                continue
            b = bytearray(pl)
            chars = [(off, w) for name, idx, off, w in enc.layout if corp.bundle["fields"][name]["t"] in ("STR", "CHA") and w == 8 and off % 8 == 0]
            if not chars:
                chars = [(off, w) for name, idx, off, w in enc.layout if corp.bundle["fields"][name]["t"] in ("STR", "CHA")]
            sel = chars[:1] if pat == "first" else chars[len(chars) // 2: len(chars) // 2 + 1] if pat == "middle" else chars[len(chars) // 2:]
            v = int.from_bytes(pl, "big")
            for off, w in sel:
                v &= ~(((1 << w) - 1) << (len(pl) * 8 - off - w))
            cases.append((ident, "nul-" + pat, v.to_bytes(len(pl), "big"), enc))
    ncut = 0
    for ident, pn, pl, enc in cases:
        rid, r, _ = corp.add(pl, 1, lbl=False, ident=ident, profile=pn, kind="complete", full=len(pl))
        lo = idbytes(ident)
        cuts = list(range(lo, len(pl)))
        if quick and len(cuts) > 10:
            keep = {lo, lo + 1, len(pl) - 1, len(pl) - 2, len(pl) // 2}
            keep |= set(rnd.sample(cuts, 5))
            cuts = sorted(c for c in cuts if c in keep)
        elif len(cuts) > 120:
            keep = set(cuts[:20]) | set(cuts[-30:]) | set(rnd.sample(cuts, 70))
            cuts = sorted(keep)
        for c in cuts:
            corp.add(pl[:c], 1, lbl=False, ident=ident, profile=pn, kind="cut", cut=c, full=len(pl), need_bits=enc.nbits)
            ncut += 1
    verdicts = corp.judge()
    accepted_cut = 0
    for r in corp.recs:
        v = verdicts[r["rid"]]
        meta = corp.meta[r["rid"]]
        rep.case(digest(bytes(r["p"])), nontrivial=(v[1] == "Rejected" or meta["kind"] == "complete"))
        facts = {"engine": "decode", "ident": meta["ident"], "kind": meta["kind"]}
        if v[0] != "accept":
            rep.reject(v[1], facts, de.replay_of(r, meta, v))
        elif meta["kind"] == "cut" and v[1] != "Rejected":
            # spec and code both accept a truncation: only possible if the generator's
            # message was not exact-size; count it, it is not a violation
            accepted_cut += 1
    rep.notes["truncations"] = ncut
    rep.notes["truncations_accepted_by_spec_and_code"] = accepted_cut
    rep.notes["identities"] = len({m["ident"] for m in corp.meta.values()})
    some = [r for r in corp.recs if corp.meta[r["rid"]]["kind"] == "cut"][:2]
    for r in some:
        m = corp.meta[r["rid"]]
        rep.sample({"ident": m["ident"], "cut_bytes": m["cut"], "full_bytes": m["full"], "bits_needed": m["need_bits"],
                    "observed": r["out"] + ":" + r["cls"], "spec": verdicts[r["rid"]][1]})
