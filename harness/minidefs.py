"""
Synthetic mini-definitions: tiny fields, every construct and pair of
constructs of the payload-definition language.  They are written in the
REPOSITORY's own definition format, so that
  * the exporter turns them into the same AST as real definitions (TLC model
    checks Decode.tla on ALL their payloads: MC_DecodeMini), and
  * they can be registered in the library's public tables at run time (the
    README's extensibility mechanism) and decoded by the REAL interpreter.
"""

# (type, width, resolution, description) - same shape as RTCM_DATA_FIELDS
MINI_FIELDS = {
    "ZUA": ("UINT", 2, 0, "mini uint2"),
    "ZUB": ("UINT", 3, 1, "mini uint3"),
    "ZUC": ("UINT", 1, 0, "mini counter 1 bit"),
    "ZUD": ("UINT", 2, 0, "mini counter 2 bits"),
    "ZIA": ("INT", 3, 0.5, "mini int3 scaled"),
    "ZIB": ("INT", 2, 0, "mini int2"),
    "ZSA": ("SNT", 3, 0.25, "mini sign-magnitude 3 scaled"),
    "ZSB": ("SNT", 2, 0, "mini sign-magnitude 2"),
    "ZCA": ("CHA", 4, 0, "mini char"),
    "ZTA": ("STR", 3, 0, "mini string code unit"),
    "ZBA": ("BIT", 1, 0, "mini bit"),
    "ZBB": ("BIT", 2, 0, "mini bits"),
}

MINI_DEFS = {
    # plain fields of every numeric type
    "3900": {"DF002": "n", "ZUA": "", "ZIA": "", "ZSA": "", "ZBA": "", "ZIB": "", "ZBB": ""},
    # fixed repeat
    "3901": {"DF002": "n", "g": (2, {"ZUA": "", "ZIA": ""}), "ZBA": ""},
    # counted repeat (overruns for larger counts)
    "3902": {"DF002": "n", "ZUD": "", "g": ("ZUD", {"ZIA": "", "ZBA": ""}), "ZUA": ""},
    # nested group with "+1" nested counter
    "3903": {
        "DF002": "n",
        "ZUD": "",
        "g": ("ZUD", {"ZUC": "", "h": ("ZUC+1", {"ZUA": ""})}),
        "ZBA": "",
    },
    # optional group
    "3904": {"DF002": "n", "ZBA": "", "o": (("ZBA", 1), {"ZIA": "", "ZUA": ""}), "ZUB": ""},
    # STR accumulate with NUL elision
    "3905": {"DF002": "n", "ZUD": "", "g": ("ZUD", {"ZTA": ""}), "ZUA": ""},
    # CHA in a group
    "3906": {"DF002": "n", "ZUD": "", "g": ("ZUD", {"ZCA": ""})},
    # sign handling extremes
    "3907": {"DF002": "n", "ZSA": "", "ZSB": "", "ZIA": "", "ZIB": ""},
    # one counter, several groups (MSM-style)
    "3908": {"DF002": "n", "ZUD": "", "g1": ("ZUD", {"ZUA": ""}), "g2": ("ZUD", {"ZBA": ""}), "g3": ("ZUD", {"ZIB": ""})},
    # fixed outer, counted inner at depth 2
    "3909": {"DF002": "n", "g": (2, {"ZUC": "", "h": ("ZUC+1", {"ZBA": "", "ZUA": ""})}), "ZBB": ""},
    # optional inside a repeat group + zero-count group
    "3910": {"DF002": "n", "ZBA": "", "ZUC": "", "g": ("ZUC", {"ZUA": ""}), "o": (("ZBA", 0), {"ZSB": ""})},
    # counter that is never decoded (missing counter => library error)
    "3911": {"DF002": "n", "g": ("ZUD", {"ZUA": ""})},
    # field that is not a defined data field
    "3912": {"DF002": "n", "ZUA": "", "ZZZ": ""},
    # malformed group body (a set where a dict is required): only reachable for count > 0
    "3914": {"DF002": "n", "ZUC": "", "ZUA": "", "g": ("ZUC", {"ZBA", "oops"})},
    # "+1" counter looked up from TWO levels down (the suffix is the OUTER index, not the innermost)
    "3915": {"DF002": "n", "g1": (2, {"ZUC": "", "g2": (2, {"g3": ("ZUC+1", {"ZBA": ""})})}), "ZUA": ""},
    # 4076_201-shaped computed counts (with shrunken IDF widths, see HARM_FIELDS)
    "3913": {
        "DF002": "n",
        "IDF035": "",
        "g": (
            "IDF035",
            {
                "IDF036": "",
                "IDF037": "",
                "IDF038": "",
                "c": ("_NHarmCoeffC", {"IDF039": ""}),
                "s": ("_NHarmCoeffS", {"IDF040": ""}),
            },
        ),
    },
}

# shrunken widths of the harmonic fields, used for 3913 both in TLC and (patched
# into the live table inside a dedicated subprocess) in the real interpreter
HARM_FIELDS = {
    "IDF035": ("UINT", 1, 1, "mini layers-1"),
    "IDF036": ("UINT", 1, 10, "mini height"),
    "IDF037": ("UINT", 1, 1, "mini degree-1"),
    "IDF038": ("UINT", 1, 1, "mini order-1"),
    "IDF039": ("INT", 1, 0, "mini C"),
    "IDF040": ("INT", 2, 0.5, "mini S"),
}

# MC-only mini MSM (mask widths 3 and 2): the real _getsatcellmaps hard-codes
# 64/32, so this definition is model-checked but never replayed into the code;
# real MSM messages are judged with the real widths instead.
MSM_FIELDS = {
    "DF394": ("BIT", 3, 0, "mini sat mask"),
    "DF395": ("BIT", 2, 0, "mini sig mask"),
    "DF396": ("BIT", 0, 0, "mini cell mask"),
}
MSM_MINI_DEF = {
    "DF002": "n",
    "DF394": "",
    "DF395": "",
    "DF396": "",
    "gs0": ("NSat", {"PRN": ""}),
    "gs1": ("NSat", {"ZBA": ""}),
    "gc0": ("NCell", {"CELLPRN": "", "CELLSIG": ""}),
    "gc1": ("NCell", {"ZBA": ""}),
}
MSM_MINI_ID = "1077"


def register():
    """Register the mini definitions in the live tables of THIS process."""
    from pyrtcm.rtcmtypes_core import RTCM_DATA_FIELDS
    from pyrtcm.rtcmtypes_get import RTCM_PAYLOADS_GET

    RTCM_DATA_FIELDS.update(MINI_FIELDS)
    RTCM_DATA_FIELDS.update(HARM_FIELDS)
    RTCM_PAYLOADS_GET.update(MINI_DEFS)
