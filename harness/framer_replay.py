"""
(B) Spec -> code replay for the framer: TLC dumps the COMPLETE state graph of
MC_Framer (bytes mode, small budget: every stream over the alphabet, every
fault placement, every option combination); every edge of that graph is
executed at least once on the real RTCMReader over a scripted stream whose
answers are exactly the ones on the path, and after every step the request the
reader made and the follow-up (handler call / raise / returned frame / end of
data) are compared with the specification's observation in the target state.
"""

import os
import re
from collections import deque

from . import common, decode_rec, framer_engine, tlc
from .common import MachineryFailure, digest

NODE_RE = re.compile(r'^(-?\d+) \[label="(.*?)"(?:,style = filled)?\];?$')
EDGE_RE = re.compile(r'^(-?\d+) -> (-?\d+) \[label="([^"]*)"')


def parse_state(label):
    """TLC state text -> dict var -> python value"""
    txt = label.replace("\\n", "\n").replace('\\"', '"').replace("\\\\", "\\")
    st = {}
    for m in re.finditer(r"/\\ (\w+) = ", txt):
        name = m.group(1)
        val, _ = tlc.parse_value(txt, m.end())
        st[name] = val
    return st


def load_graph(path):
    nodes, edges, inits = {}, [], []
    with open(path, encoding="utf-8") as f:
        for line in f:
            line = line.strip()
            m = EDGE_RE.match(line)
            if m:
                edges.append((m.group(1), m.group(2), m.group(3)))
                continue
            m = NODE_RE.match(line)
            if m:
                nodes[m.group(1)] = parse_state(m.group(2))
                if "style = filled" in line:
                    inits.append(m.group(1))
    return nodes, edges, inits


class Exhausted(Exception):
    """the reader asked for more than the path scripted"""


class PathStream:
    """answers the reader's requests with the scripted answers, records the requests"""

    def __init__(self):
        self.answers = deque()
        self.requests = []

    def read(self, n):
        if n <= 0:
            return b""
        if not self.answers:
            raise Exhausted(f"read({n})")
        self.requests.append(("read", n))
        return self.answers.popleft()

    def readline(self):
        if not self.answers:
            raise Exhausted("readline()")
        self.requests.append(("readline", -1))
        return self.answers.popleft()


def run_path(nodes, path, init):
    """
    Execute one path (list of (src, dst, action)) on the real reader.
    Returns None if every step matched, else (step index, expected, observed).
    """
    from pyrtcm import RTCMReader

    s0 = nodes[init]
    handled = []
    stream = PathStream()
    rdr = RTCMReader(stream, validate=s0["validate"], parsed=s0["parsed"], quitonerror=s0["quit"], errorhandler=handled.append)
    libs = decode_rec.lib_classes()
    i = 0
    while i < len(path):
        src, dst, act = path[i]
        if act != "Call":
            return (i, "Call edge", f"path starts call with {act}")
        # steps of this call: following AnswerBytes edges until pc = idle again
        j = i + 1
        steps = []
        while j < len(path) and path[j][2] != "Call":
            steps.append(nodes[path[j][1]])
            j += 1
        stream.answers = deque(bytes(s["got"]) for s in steps)
        stream.requests = []
        nh0 = len(handled)
        try:
            raw, msg = rdr.read()
            outcome = ("ret", raw, msg)
        except Exhausted as err:
            outcome = ("exhausted", str(err), None)
        except BaseException as err:  # pylint: disable=broad-except
            outcome = ("raise", err, None)
        # compare requests
        for k, s in enumerate(steps):
            o = s["obs"]
            exp = (o["op"], o["req"] if o["op"] == "read" else -1)
            if k >= len(stream.requests):
                if outcome[0] == "exhausted":
                    return (i + 1 + k, {"request": exp}, {"request": None, "outcome": outcome[0]}, "pattern")
                return (i + 1 + k, {"request": exp}, {"request": None, "outcome": outcome[0]})
            if stream.requests[k] != exp:
                return (i + 1 + k, {"request": exp}, {"request": stream.requests[k]}, "pattern")
        if not steps:
            return (i, "at least one request in a call", "none")
        last = steps[-1]["obs"]
        complete = nodes[path[j - 1][1]]["pc"] == "idle"
        if not complete:
            # path ends in the middle of a call: the reader must have asked for more
            if outcome[0] != "exhausted":
                return (j - 1, {"call": "still waiting for data"}, {"outcome": outcome[0]})
            return None
        # handler calls during this call: one per step whose ev = handler
        exp_h = [s["obs"]["cls"] for s in steps if s["obs"]["ev"] == "handler"]
        got_h = [type(e).__name__ for e in handled[nh0:]]
        dec_err = {"RTCMTypeError", "RTCMMessageError"}  # decoder error class is left open by the spec
        if len(exp_h) != len(got_h) or any(a != b and not (a in dec_err and b in dec_err) for a, b in zip(exp_h, got_h)):
            return (j - 1, {"handler_calls": exp_h}, {"handler_calls": got_h})
        if last["ev"] == "eof":
            ok = outcome[0] == "ret" and outcome[1] is None and outcome[2] is None
            if not ok:
                return (j - 1, {"return": "(None, None)"}, {"outcome": outcome[0], "value": str(outcome[1])[:60]})
        elif last["ev"] == "ret":
            ok = outcome[0] == "ret" and outcome[1] is not None and list(outcome[1]) == last["raw"]
            if ok:
                pk = "none" if outcome[2] is None else ("stub" if decode_rec.is_stub(outcome[2]) else "msg")
                ok = pk == last["pk"]
            if not ok:
                return (j - 1, {"return_raw": bytes(last["raw"]).hex(), "pk": last["pk"]}, {"outcome": outcome[0], "value": str(outcome[1])[:80]})
        elif last["ev"] == "raise":
            ok = outcome[0] == "raise" and isinstance(outcome[1], libs) and (
                type(outcome[1]).__name__ == last["cls"] or ({type(outcome[1]).__name__, last["cls"]} <= dec_err))
            if not ok:
                return (j - 1, {"raise": last["cls"]}, {"outcome": outcome[0], "value": repr(outcome[1])[:80]})
        else:
            return (j - 1, "call ends with ret/eof/raise", last["ev"])
        i = j
    return None


def replay_graph(rep, budget, bundle=None, maxpay=1, optset="OptCore"):
    mids = framer_engine.defined_mids(bundle) if bundle else [1005]
    dump = os.path.join(common.scratch(), f"framer-graph-{budget}")
    cfg = framer_engine.MC_CFG % dict(mode="bytes", maxpay=maxpay, budget=budget, mids=", ".join(map(str, mids)),
                                      damage="FALSE", optset=optset, live="", hraise="FALSE")
    res = tlc.run("MC_Framer", cfg, workers=1, heap="2g", extra=["-dump", "dot,actionlabels", dump], timeout=3000)
    tlc.must_ok(res, "MC_Framer graph dump")
    rep.add_tlc(res)
    nodes, edges, inits = load_graph(dump + ".dot")
    if not edges or not inits:
        raise MachineryFailure("empty state graph dump")
    succ = {}
    for e in edges:
        if e[0] != e[1] or e[2] != "":
            succ.setdefault(e[0], []).append(e)
    # BFS tree from the initial states
    parent = {i: None for i in inits}
    root = {i: i for i in inits}
    dq = deque(inits)
    while dq:
        u = dq.popleft()
        for e in succ.get(u, []):
            if e[1] not in parent:
                parent[e[1]] = e
                root[e[1]] = root[u]
                dq.append(e[1])
    # shortest continuation to an idle state (reverse BFS)
    pred = {}
    for e in edges:
        pred.setdefault(e[1], []).append(e)
    cont = {n: None for n, s in nodes.items() if s.get("pc") == "idle"}
    dq = deque(cont)
    while dq:
        v = dq.popleft()
        for e in pred.get(v, []):
            if e[0] not in cont:
                cont[e[0]] = e
                dq.append(e[0])

    def prefix(u):
        p = []
        while parent[u] is not None:
            p.append(parent[u])
            u = parent[u][0]
        return list(reversed(p))

    done = set()
    npaths = nsteps = 0
    bad = 0
    pattern_dev = 0
    for e in edges:
        if e in done or e[0] not in parent:
            continue
        path = prefix(e[0]) + [e]
        v = e[1]
        while cont.get(v) is not None:   # extend to the end of the call
            path.append(cont[v])
            v = cont[v][1]
        done.update(path)
        npaths += 1
        nsteps += len(path)
        init = root[e[0]]
        mism = run_path(nodes, path, init)
        rep.case(digest([init] + [x[1] for x in path]))
        if mism is not None and len(mism) == 4:
            # the reader asked for another number of bytes than the specification: a different READ
            # PATTERN, not by itself a violation of a listed property (the path's scripted answers no
            # longer line up, so the path is not judged; outputs are judged by FramerOut on the traces)
            pattern_dev += 1
            continue
        if mism is not None and bad < 25:
            bad += 1
            k, exp, obs = mism
            s0 = nodes[init]
            answers = [bytes(nodes[x[1]]["got"]).hex() if x[2] != "Call" else "CALL" for x in path]
            rep.reject("GraphReplay", {"engine": "framer-replay", "quit": s0["quit"], "validate": s0["validate"], "parsed": s0["parsed"],
                                       "expected": str(exp)[:80]},
                       {"engine": "framer-replay", "options": {"validate": s0["validate"], "parsed": s0["parsed"], "quitonerror": s0["quit"]},
                        "script": answers, "step": k, "expected": exp, "observed": obs})
    rep.count("traces_validated_against_impl", npaths)
    rep.notes["graph_replay"] = {"budget": budget, "states": len(nodes), "edges": len(edges), "paths": npaths, "steps": nsteps,
                                 "edges_covered": len(done), "paths_not_judged_read_pattern": pattern_dev}
    if len(done) < len([e for e in edges if e[0] in parent]):
        raise MachineryFailure("graph replay did not cover every edge")
    return npaths
