"""
(B) Spec -> code replay for the socket buffer: TLC dumps the COMPLETE state
graph of MC_Sock in plain mode (every source over {x, CR, LF} up to N bytes,
every partition into receives, every sequence of read(0..n)/readline calls,
a failure or peer close between any two receives); every edge is executed at
least once on the real SocketWrapper over a socket double whose recv() answers
are exactly the ones on the path; after every client call the returned bytes
and the public buffer are compared with the specification's state.

(Chunked mode is not replayed edge by edge: C12 fixes what is delivered, not
when a chunk is released, so exact state equality would over-constrain a
correct implementation - see DESIGN 9.2; it is trace-validated instead.)
"""

import os
import socket
from collections import deque

from . import common, sock_engine, tlc
from .common import MachineryFailure, digest
from .framer_replay import load_graph


class Exhausted(Exception):
    """the wrapper called recv() more often than the path scripted"""


class PathSocket(socket.socket):
    def __init__(self):
        super().__init__(socket.AF_INET, socket.SOCK_STREAM)
        self.answers = deque()
        self.bufsizes = []

    def recv(self, bufsize, flags=0):  # pylint: disable=arguments-differ
        self.bufsizes.append(bufsize)
        if not self.answers:
            raise Exhausted()
        a = self.answers.popleft()
        if a == "fail":
            raise TimeoutError("scripted")
        if a == "closed":
            return b""
        return bytes(a)


def classify(src, dst):
    """-> (kind, payload) of the transition src -> dst"""
    if len(dst["rcvd"]) > len(src["rcvd"]):
        return "recv", dst["rcvd"][len(src["rcvd"]):]
    sc, dc = src["call"], dst["call"]
    if sc["op"] == "none" and dc["op"] in ("read", "readline"):
        return "call", (dc["op"], dc["n"])
    if sc["op"] in ("init", "read", "readline") and (dc["failed"] and not sc["failed"] or (sc["op"] == "init" and dc["op"] == "none")):
        return ("closed" if dst["closed"] and not src["closed"] else "fail"), None
    if sc["op"] in ("read", "readline") and dc["op"] == "none":
        return "ret", dst["last"]
    if sc["op"] == "readline" and len(dst["delivered"]) > len(src["delivered"]):
        return "linestep", None
    return "other", None


def run_path(nodes, path, bufsize):
    from pyrtcm.socketwrapper import SocketWrapper

    sock = PathSocket()
    try:
        steps = [(classify(nodes[e[0]], nodes[e[1]]), nodes[e[1]]) for e in path]
        i = 0
        # constructor: exactly one receive
        (kind, pay), st = steps[0]
        if kind not in ("recv", "fail", "closed"):
            return (0, "constructor receive", kind)
        sock.answers.append(pay if kind == "recv" else kind)
        w = SocketWrapper(sock, bufsize=bufsize)
        if bytes(w.buffer) != bytes(st["buffer"]) or sock.answers:
            return (0, {"buffer": bytes(st["buffer"]).hex()}, {"buffer": bytes(w.buffer).hex()})
        i = 1
        while i < len(steps):
            (kind, pay), st = steps[i]
            if kind != "call":
                return (i, "client call", kind)
            j = i + 1
            while j < len(steps) and steps[j][0][0] != "ret":
                k2, p2 = steps[j][0]
                if k2 == "recv":
                    sock.answers.append(p2)
                elif k2 in ("fail", "closed"):
                    sock.answers.append(k2)
                j += 1
            complete = j < len(steps)
            try:
                out = w.read(pay[1]) if pay[0] == "read" else w.readline()
                exc = None
            except Exhausted:
                out, exc = None, "exhausted"
            except BaseException as err:  # pylint: disable=broad-except
                out, exc = None, repr(err)
            if complete and exc == "exhausted":
                return (j, "no more receives than on the path", "recv() called again", "pattern")
            if not complete:
                if exc != "exhausted":
                    return (j - 1, "call still waiting for data", {"returned": None if out is None else out.hex(), "exc": exc})
                return None
            exp = steps[j][1]
            if exc is not None:
                return (j, {"return": bytes(exp["last"]["data"]).hex()}, {"exception": exc})
            if sock.answers:
                return (j, "all scripted receives consumed", {"left": len(sock.answers), "returned": out.hex()}, "pattern")
            if bytes(out) != bytes(exp["last"]["data"]):
                return (j, {"return": bytes(exp["last"]["data"]).hex()}, {"return": out.hex()})
            if bytes(w.buffer) != bytes(exp["buffer"]) or w.in_waiting() != len(exp["buffer"]):
                return (j, {"buffer": bytes(exp["buffer"]).hex()}, {"buffer": bytes(w.buffer).hex(), "in_waiting": w.in_waiting()})
            i = j + 1
        return None
    finally:
        sock.close()


def replay_graph(rep, bufsize, maxlen, maxn=2):
    cfg = sock_engine.MC_CFG % dict(chunked="FALSE", bufsize=bufsize, maxlen=maxlen, maxn=maxn, maxfail=1, maxchunks=0, calls="TRUE")
    dump = os.path.join(common.scratch(), f"sock-graph-{bufsize}-{maxlen}")
    res = tlc.run("MC_Sock", cfg, workers=1, heap="3g", extra=["-dump", "dot,actionlabels", dump], timeout=3000)
    tlc.must_ok(res, "MC_Sock graph dump")
    rep.add_tlc(res)
    nodes, edges, inits = load_graph(dump + ".dot")
    if not edges or not inits:
        raise MachineryFailure("empty socket state graph")
    edges = [e for e in edges if e[0] != e[1]]
    succ, pred = {}, {}
    for e in edges:
        succ.setdefault(e[0], []).append(e)
        pred.setdefault(e[1], []).append(e)
    parent = {i: None for i in inits}
    dq = deque(inits)
    while dq:
        u = dq.popleft()
        for e in succ.get(u, []):
            if e[1] not in parent:
                parent[e[1]] = e
                dq.append(e[1])
    cont = {n: None for n, s in nodes.items() if s["call"]["op"] == "none"}
    dq = deque(cont)
    while dq:
        v = dq.popleft()
        for e in pred.get(v, []):
            if e[0] not in cont:
                cont[e[0]] = e
                dq.append(e[0])

    def prefix(u):
        p = []
        while parent[u] is not None:
            p.append(parent[u])
            u = parent[u][0]
        return list(reversed(p))

    done = set()
    npaths = nsteps = bad = pattern_dev = 0
    for e in edges:
        if e in done or e[0] not in parent:
            continue
        path = prefix(e[0]) + [e]
        v = e[1]
        while cont.get(v) is not None:
            path.append(cont[v])
            v = cont[v][1]
        done.update(path)
        npaths += 1
        nsteps += len(path)
        mism = run_path(nodes, path, bufsize)
        rep.case(digest([x[1] for x in path]))
        if mism is not None and len(mism) == 4:
            # another RECEIVE PATTERN than the specification's (more / fewer recv() calls for a client
            # call): the scripted answers no longer line up; not judged here (envelope on the traces)
            pattern_dev += 1
            continue
        if mism is not None and bad < 25:
            bad += 1
            k, exp, obs = mism
            script = [(classify(nodes[x[0]], nodes[x[1]])[0], str(classify(nodes[x[0]], nodes[x[1]])[1])) for x in path]
            rep.reject("GraphReplay", {"engine": "socket-replay", "bufsize": bufsize, "expected": str(exp)[:80]},
                       {"engine": "socket-replay", "bufsize": bufsize, "source": nodes[path[0][0]]["net"], "script": script, "step": k,
                        "expected": exp, "observed": obs})
    rep.count("traces_validated_against_impl", npaths)
    rep.notes.setdefault("sock_graph_replay", []).append({"bufsize": bufsize, "maxlen": maxlen, "states": len(nodes), "edges": len(edges),
                                                          "paths": npaths, "steps": nsteps, "edges_covered": len(done),
                                                          "paths_not_judged_recv_pattern": pattern_dev})
    if len(done) < len([e for e in edges if e[0] in parent]):
        raise MachineryFailure("socket graph replay did not cover every edge")
    return npaths
