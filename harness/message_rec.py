"""
Recording Message-level operation histories on a live RTCMMessage for the
judge (DecodeJudge.tla / Message.tla): serialise, re-parse, repr-eval,
attribute assignment, ismsm, array helpers, name helpers.
Every op record has the same shape (TLC needs every field present).
"""

import hashlib

from . import common, decode_rec
from .export_tables import desc_digest

V0 = {"n": "", "k": "", "s": 0, "m": [], "c": [], "t": "", "num": -1}


def op0(op, **kw):
    rec = {
        "op": op, "name": "", "raised": "", "lib": True, "none": False, "flag": False, "bytes": [], "ident": "",
        "attrs": [], "sd": "", "snames": [], "idx": [],
        "meta": {"ident": "", "station": dict(V0), "epoch": dict(V0), "sats": 0, "cells": 0},
        "sats": [], "cells": [], "layers": [], "names": [], "lines": [],
    }
    rec.update(kw)
    return rec


def _exc(rec, err):
    rec["raised"] = type(err).__name__
    rec["lib"] = isinstance(err, decode_rec.lib_classes())
    return rec


def state_digest(msg):
    """digest of str, repr and serialised bytes (C14: unchanged by refused assignments)"""
    h = hashlib.sha256()
    for f in (str, repr, lambda m: m.serialize().hex()):
        try:
            h.update(f(msg).encode("utf-8", "replace"))
        except Exception as err:  # pylint: disable=broad-except
            h.update(("EXC:" + type(err).__name__).encode())
        h.update(b"|")
    return h.hexdigest()[:16]


def snapshot(rec, msg, fields):
    rec["bytes"] = list(msg.payload)
    rec["ident"] = str(msg.identity)
    rec["attrs"] = [decode_rec.project_attr(k, v, fields)[0] for k, v in decode_rec.public_attrs(msg)]
    rec["sd"] = state_digest(msg)
    return rec


def val(name, v, fields):
    return decode_rec.project_attr(name, v, fields)[0]


def do_op(msg, op, fields, labelmsm=1, name=None, value=None):
    rec = op0(op)
    try:
        with common.watchdog(30):
            return _do_op(rec, msg, op, fields, labelmsm, name, value)
    except common.Watchdog:
        rec["raised"] = "Watchdog(no termination)"
        rec["lib"] = False
        return rec


def _do_op(rec, msg, op, fields, labelmsm, name, value):
    from pyrtcm import RTCMMessage, RTCMReader
    from pyrtcm.rtcmhelpers import att2idx, att2name, datadesc, parse_4076_201, parse_msm

    try:
        if op == "serialize":
            rec["bytes"] = list(msg.serialize())
        elif op == "payload":
            rec["bytes"] = list(msg.payload)
        elif op == "reparse":
            m2 = RTCMReader.parse(msg.serialize(), validate=1, labelmsm=labelmsm)
            snapshot(rec, m2, fields)
        elif op == "repr":
            m2 = eval(repr(msg), {"RTCMMessage": RTCMMessage})  # pylint: disable=eval-used
            snapshot(rec, m2, fields)
        elif op == "setattr":
            rec["name"] = name
            try:
                setattr(msg, name, value)
            except BaseException as err:  # pylint: disable=broad-except
                _exc(rec, err)
            snapshot(rec, msg, fields)
        elif op == "ismsm":
            rec["flag"] = bool(msg.ismsm)
        elif op == "parse_msm":
            res = parse_msm(msg)
            if res is None:
                rec["none"] = True
            else:
                meta, sats, cells = res
                rec["meta"] = {
                    "ident": str(meta.get("identity", "")),
                    "station": val("DF003", meta.get("station"), fields),
                    "epoch": val("", meta.get("epoch"), fields),
                    "sats": int(meta.get("sats", -1)),
                    "cells": int(meta.get("cells", -1)),
                }
                rec["sats"] = [[{"b": k, "v": val(k, v, fields)} for k, v in d.items()] for d in sats]
                rec["cells"] = [[{"b": k, "v": val(k, v, fields)} for k, v in d.items()] for d in cells]
        elif op == "parse_4076_201":
            res = parse_4076_201(msg)
            if res is None:
                rec["none"] = True
            else:
                layers = []
                for lyr in sorted(res):
                    d = res[lyr]
                    layers.append({
                        "height": val("IDF036", d.get("Layer Height"), fields),
                        "cos": [val("IDF039", v, fields) for v in d.get("Cosine Coefficients", [])],
                        "sin": [val("IDF040", v, fields) for v in d.get("Sine Coefficients", [])],
                    })
                rec["layers"] = layers
        elif op == "strshape":
            import re as _re

            txt = str(msg)
            m = _re.match(r"^<RTCM\(([^,)]*)(?:, (.*))?\)>$", txt, _re.S)
            body = (m.group(2) or "") if m else ""
            rec["ident"] = m.group(1) if m else "?"
            rec["flag"] = body.endswith("Not_Yet_Implemented")
            pubs = [k for k, _ in decode_rec.public_attrs(msg)]
            # names in the order they appear (each "name=" must be found after the previous one)
            pos, names = 0, []
            for k in pubs:
                j = body.find(k + "=", pos)
                if j < 0:
                    break
                names.append(k)
                pos = j + len(k) + 1
            rec["snames"] = names
        elif op == "get_bit":
            from pyrtcm.rtcmhelpers import get_bit

            pl = bytes(msg.payload)
            idx = sorted({0, 7, 8, 11, len(pl) * 8 - 1} | {(i * 37) % (len(pl) * 8) for i in range(12)}) if pl else []
            rec["idx"] = idx
            rec["bytes"] = [int(get_bit(pl, i)) for i in idx]
        elif op == "tow2utc":
            from pyrtcm.rtcmhelpers import tow2utc

            pl = bytes(msg.payload)
            seedv = int.from_bytes(pl[:8].ljust(8, b"\0"), "big")
            tows = [0, 1, 17999, 18000, 18001, 86399999, 86400000, 86417999, 86418000, 604799999, 387092000]
            tows += [(seedv >> s) % 604800000 for s in (0, 7, 19, 31)]
            rec["idx"] = tows
            for t in tows:
                tm = tow2utc(t)
                if tm.microsecond % 1000:
                    raise AssertionError(f"sub-millisecond result for tow={t}")
                rec["lines"].append([tm.hour, tm.minute, tm.second, tm.microsecond // 1000])
        elif op == "len2bytes":
            from pyrtcm.rtcmhelpers import len2bytes

            rec["bytes"] = list(len2bytes(bytes(msg.payload)))
        elif op == "names":
            names = []
            for k, _ in decode_rec.public_attrs(msg):
                x = {"n": k, "raised": "", "dd": "", "idx": [], "tuple": False, "base": ""}
                try:
                    x["dd"] = desc_digest(datadesc(k))
                    i = att2idx(k)
                    # the helpers are pure: asked again (in another order) they must answer the same
                    n1 = att2name(k)
                    if att2idx(k) != i or att2name(k) != n1 or desc_digest(datadesc(k)) != x["dd"] or att2idx(k) != i:
                        raise AssertionError("NotIdempotent")
                    if isinstance(i, tuple):
                        x["tuple"] = True
                        x["idx"] = [int(j) for j in i]
                    else:
                        x["idx"] = [int(i)] if i else []
                    x["base"] = str(att2name(k))
                except BaseException as err:  # pylint: disable=broad-except
                    x["raised"] = type(err).__name__
                names.append(x)
            rec["names"] = names
        else:
            raise ValueError(op)
    except BaseException as err:  # pylint: disable=broad-except
        if isinstance(err, (KeyboardInterrupt, SystemExit, MemoryError, common.Watchdog)):
            raise
        _exc(rec, err)
    return rec


_LIBNAMES = None


def library_names():
    """
    Candidate attribute names taken from the library itself: every identifier-shaped name or string
    constant that occurs in the code objects of the pyrtcm package, and every string in a module-level
    tuple / list / set / frozenset / dict of the package.  An assignment guard with an exemption has to
    name the exempted attribute somewhere in the code - this is where to look for it.
    """
    global _LIBNAMES
    if _LIBNAMES is not None:
        return _LIBNAMES
    import re
    import sys

    from . import parallel_run

    ident = re.compile(r"^[A-Za-z_][A-Za-z0-9_]{0,30}$")
    names = set()

    def strings(obj, depth=0):
        if isinstance(obj, str):
            if ident.match(obj):
                names.add(obj)
        elif isinstance(obj, (tuple, list, set, frozenset)) and depth < 3 and len(obj) <= 64:
            for x in obj:
                strings(x, depth + 1)

    for code in parallel_run._pyrtcm_codes():     # pylint: disable=protected-access
        names.update(n for n in code.co_names if ident.match(n))
        names.update(n for n in code.co_varnames if ident.match(n))
        for c in code.co_consts:
            strings(c)
    for mname, mod in list(sys.modules.items()):
        if mod is None or not (mname == "pyrtcm" or mname.startswith("pyrtcm.")):
            continue
        for k, v in vars(mod).items():
            if k.startswith("__"):
                continue
            if isinstance(v, dict) and len(v) <= 64:
                strings(tuple(v.keys()))
                strings(tuple(x for x in v.values() if isinstance(x, (str, tuple, list))))
            else:
                strings(v)
    _LIBNAMES = sorted(names)
    return _LIBNAMES
