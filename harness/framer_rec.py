"""
Recording executions of the real RTCMReader for FramerTrace.tla.

The reader is driven through a *recording proxy* placed at the interface
between RTCMReader and its stream (read(n) / readline()); the proxy can also
inject faults (short reads, empty answers) according to a schedule.  One event
per underlying call, with the follow-up (handler call / raise / return) that
happened before the next call folded into it.
"""

import io
import json
import os

from . import common, decode_rec, tlc
from .common import MachineryFailure


class ScriptedStream:
    """
    File-like stream over `data` with fault injection.
    faults: dict {call index: ("short", k) | ("empty",)} applied to the i-th read/readline call
    """

    def __init__(self, data: bytes, faults=None):
        self.data = bytes(data)
        self.pos = 0
        self.faults = faults or {}
        self.calls = 0

    def read(self, n):
        i = self.calls
        self.calls += 1
        f = self.faults.get(i)
        if n <= 0:
            return b""
        if f and f[0] == "empty":
            return b""
        if f and f[0] == "short":
            n = max(1, min(n - 1, f[1]))
        out = self.data[self.pos : self.pos + n]
        self.pos += len(out)
        return out

    def readline(self):
        i = self.calls
        self.calls += 1
        f = self.faults.get(i)
        if f and f[0] == "empty":
            return b""
        j = self.data.find(b"\n", self.pos)
        end = len(self.data) if j < 0 else j + 1
        if f and f[0] == "short":
            end = min(end, self.pos + max(1, f[1]))
        out = self.data[self.pos : end]
        self.pos = end
        return out

    @property
    def drained(self):
        return self.pos >= len(self.data)


class RecProxy:
    """Records every call the reader makes on its stream."""

    def __init__(self, inner, log):
        self._inner = inner
        self._log = log

    def read(self, n):
        data = self._inner.read(n)
        self._log.append({"op": "read", "n": int(n), "data": list(data)})
        return data

    def readline(self):
        data = self._inner.readline()
        self._log.append({"op": "readline", "n": -1, "data": list(data)})
        return data

    def __getattr__(self, name):
        return getattr(self._inner, name)


def ev0(op, **kw):
    e = {"op": op, "n": 0, "data": [], "then": "none", "cls": "", "lib": True, "raw": [], "pk": "none", "anycls": False}
    e.update(kw)
    return e


class _LoggedText(Exception):
    """log mode without a user handler: the report is a log record whose message is a text (class not observable)"""


class HandlerEscalation(Exception):
    """raised by the scripted user error handler (a user exception, not one of the library's)"""


def run_reader(stream, validate=1, parsed=True, quit=1, handler=True, labelmsm=1, max_calls=100000, wrap=True, use_iter=False, hraise=None):
    """
    Drive RTCMReader over `stream` until end of data. Returns (events, results)
    results: list of (raw, parsed_msg) delivered.
    """
    from pyrtcm import RTCMReader

    log = []
    herrs = []

    def on_err(err):
        herrs.append(err)
        if log:
            log[-1]["_handler"] = log[-1].get("_handler", 0) + 1
            log[-1]["_hcls"] = type(err).__name__
            log[-1]["_hlib"] = isinstance(err, decode_rec.lib_classes()) or isinstance(err, _LoggedText)
            log[-1]["_hany"] = isinstance(err, _LoggedText)
        else:
            log.append({"op": "orphan-handler"})
        if hraise and handler and (len(herrs) - 1) in hraise:
            # the user's handler escalates: alternately with one of the library's classes and a foreign one
            if len(herrs) % 2:
                from pyrtcm.exceptions import RTCMStreamError

                raise RTCMStreamError("error budget exhausted (raised by the user's handler)")
            raise HandlerEscalation("raised by the user's handler")

    # without a user handler, log mode reports through the module logger: observe it the same way
    import logging

    class _LogTap(logging.Handler):
        def emit(self, record):
            if "socket" in record.name:
                return      # (the socket wrapper's own diagnostics are not the reader's error reports)
            msg = record.msg
            on_err(msg if isinstance(msg, BaseException) else _LoggedText(str(msg)))

    tap = None
    lg = logging.getLogger("pyrtcm")      # the package logger: the reader's module logger propagates to it
    if not handler:
        tap = _LogTap(level=logging.ERROR)
        lg.addHandler(tap)
        old_prop = lg.propagate
        lg.propagate = False
    try:
        return _run_reader(stream, log, on_err, validate, parsed, quit, handler, labelmsm, max_calls, wrap, use_iter)
    finally:
        if tap is not None:
            lg.removeHandler(tap)
            lg.propagate = old_prop


class _FalsyCollector(list):
    """a user error handler that is a callable OBJECT whose truth value is False (an empty collector)"""

    def __init__(self, fn):
        super().__init__()
        self._fn = fn

    def __call__(self, err):
        return self._fn(err)

    def __bool__(self):
        return False


class _MethodHolder:
    def __init__(self, fn):
        self._fn = fn

    def handle(self, err):
        return self._fn(err)


HANDLER_KINDS = 4
_hk = [0]
_rc = [0]


def _handler_object(on_err):
    """the user's handler comes in several shapes: function, bound method, partial, falsy callable object"""
    import functools

    _hk[0] += 1
    k = _hk[0] % HANDLER_KINDS
    if k == 0:
        return on_err
    if k == 1:
        return _MethodHolder(on_err).handle
    if k == 2:
        return functools.partial(on_err)
    return _FalsyCollector(on_err)


def _run_reader(stream, log, on_err, validate, parsed, quit, handler, labelmsm, max_calls, wrap, use_iter):
    from pyrtcm import RTCMReader

    proxy = RecProxy(stream, log) if wrap else stream
    kw = {}
    # options equal to the documented defaults are OMITTED in every other construction (a default must
    # mean the same whatever was constructed or parsed before)
    _rc[0] += 1
    omit = _rc[0] % 2 == 0
    if not (omit and validate == 1):
        kw["validate"] = validate
    if not (omit and quit == 1):
        kw["quitonerror"] = quit
    if not (omit and parsed is True):
        kw["parsed"] = parsed
    if not (omit and labelmsm == 1):
        kw["labelmsm"] = labelmsm
    if handler or not omit:
        kw["errorhandler"] = _handler_object(on_err) if handler else None
    # calling style: every third construction passes validate, quitonerror, labelmsm POSITIONALLY in
    # the documented order RTCMReader(datastream, validate, quitonerror, labelmsm, bufsize, parsed, ...)
    if _rc[0] % 3 == 1:
        rest = {k: v for k, v in kw.items() if k in ("errorhandler",)}
        rdr = RTCMReader(proxy, validate, quit, labelmsm, 4096, parsed, **rest)
    else:
        rdr = RTCMReader(proxy, **kw)
    if not wrap:
        raise MachineryFailure("run_reader needs a stream it can wrap (no private attributes of the reader are touched)")
    events = []
    results = []
    libs = decode_rec.lib_classes()
    calls = 0
    while calls < max_calls:
        calls += 1
        n0 = len(log)
        events.append(ev0("call"))
        outcome = None
        try:
            if use_iter:
                try:
                    raw, msg = next(rdr)
                except StopIteration:
                    raw, msg = None, None
            else:
                raw, msg = rdr.read()
            outcome = ("ret", raw, msg)
        except BaseException as err:  # pylint: disable=broad-except
            if isinstance(err, (KeyboardInterrupt, SystemExit, MemoryError, common.Watchdog)):
                raise
            outcome = ("raise", err, None)
        ios = log[n0:]
        for e in ios:
            if e["op"] == "orphan-handler":
                events.append(ev0("read", then="handler", cls="orphan", lib=False))
                continue
            x = ev0(e["op"], n=e["n"], data=e["data"])
            if e.get("_handler"):
                x["then"] = "handler"
                x["cls"] = e["_hcls"]
                x["lib"] = e["_hlib"]
                x["anycls"] = bool(e.get("_hany"))
                if e["_handler"] > 1:
                    x["then"] = "handler-twice"
            events.append(x)
        last = events[-1]
        if outcome[0] == "raise":
            err = outcome[1]
            if last["op"] == "call" or last["then"] != "none":
                events.append(ev0("read", n=0))
                last = events[-1]
            last["then"] = "raise"
            last["cls"] = type(err).__name__
            last["lib"] = isinstance(err, libs)
            continue
        _, raw, msg = outcome
        if last["op"] == "call" or last["then"] != "none":
            # return without a preceding request (or after a handler call): make it explicit
            events.append(ev0("read", n=0))
            last = events[-1]
        if raw is None and msg is None:
            last["then"] = "eof"
            # a timeout / empty answer is not the end of the data: the client may call again
            # (only when the stream says it still holds bytes, and a bounded number of times)
            retries_left = getattr(stream, "_verif_retries", 0)
            if retries_left > 0 and not getattr(stream, "drained", True):
                stream._verif_retries = retries_left - 1
                continue
            break
        last["then"] = "ret"
        last["raw"] = list(raw) if raw is not None else []
        if msg is None:
            last["pk"] = "none"
        else:
            unknown = decode_rec.is_stub(msg)
            last["pk"] = "stub" if unknown else "msg"
        results.append((raw, msg))
    return events, results


TRACE_CFG = """SPECIFICATION TSpec
INVARIANT TypeOK
INVARIANT CurShape
INVARIANT SliceOK
INVARIANT OnlyLibraryErrors
INVARIANT ModeDiscipline
CHECK_DEADLOCK FALSE
"""


PATTERN_CLAUSES = {"WrongRequestSize", "WrongRequestKind", "IoWhileIdle"}


def observables(tr):
    """exact-trace events -> the client-visible observables of FramerOut.tla"""
    ob = []

    def o(t, **kw):
        x = {"t": t, "cls": "", "lib": True, "raw": [], "pk": "none", "anycls": False}
        x.update(kw)
        ob.append(x)

    for e in tr["ev"]:
        if e["op"] == "call":
            o("call")
            continue
        th = e["then"]
        if th == "none":
            continue
        if th in ("handler", "handler-twice"):
            for _ in range(2 if th == "handler-twice" else 1):
                o("handler", cls=e["cls"], lib=bool(e["lib"]), anycls=bool(e.get("anycls")))
        elif th == "raise":
            if tr.get("hraise") and e["op"] == "read" and e["n"] == 0 and ob and ob[-1]["t"] == "handler":
                o("hraise")
            else:
                o("raise", cls=e["cls"], lib=bool(e["lib"]))
        elif th == "ret":
            o("ret", raw=list(e["raw"]), pk=e["pk"])
        elif th == "eof":
            o("eof")
        else:
            o(str(th))
    return ob


OUT_CFG = """SPECIFICATION TSpec
INVARIANT TypeOK
INVARIANT CurShape
INVARIANT SliceOK
INVARIANT OnlyLibraryErrors
INVARIANT ModeDiscipline
CHECK_DEADLOCK FALSE
"""


def judge_out(recs, shards=16, heap="768m", timeout=3000):
    """
    Output-level validation (FramerOut.tla) of fault-free executions.
    recs: list of {"tid", "validate", "parsed", "quit", "hraise", "stream": [...], "ob": [...]}
    -> ({tid: (verdict, clause, pos, detail)}, results, frames)
    """
    if not recs:
        return {}, [], []
    order = sorted(recs, key=lambda t: -(len(t["stream"]) + 8 * len(t["ob"])))
    nsh = max(1, min(shards, len(recs)))
    buckets = [[] for _ in range(nsh)]
    loads = [0] * nsh
    for t in order:
        i = loads.index(min(loads))
        buckets[i].append(t)
        loads[i] += len(t["stream"]) + 8 * len(t["ob"])
    jobs = []
    for i, b in enumerate(buckets):
        path = os.path.join(common.scratch(), f"fout-{os.getpid()}-{id(recs) % 100000}-{i}.json")
        with open(path, "w", encoding="utf-8") as f:
            json.dump(b, f)
        jobs.append(dict(module="FramerOut", cfg=OUT_CFG, env={"VERIF_TRACES": path}, heap=heap, timeout=timeout))
    results = tlc.run_many(jobs)
    verdicts, frames = {}, []
    for res in results:
        if res.invariant:
            raise MachineryFailure(f"FramerOut: invariant {res.invariant} violated\n" + "\n".join(res.out.splitlines()[-60:]))
        if not res.ok():
            raise MachineryFailure("FramerOut TLC failure: " + str(res.error) + "\n" + "\n".join(res.out.splitlines()[-40:]))
        for t in res.tuples("OVERDICT"):
            verdicts[t[1]] = (t[2], t[3], t[4], t[5])
        for t in res.tuples("FRAME"):
            frames.append((t[1], t[2], bytes(t[3]), t[4]))
    missing = [t["tid"] for t in recs if t["tid"] not in verdicts]
    if missing:
        raise MachineryFailure(f"FramerOut: {len(missing)} traces without verdict, e.g. {missing[:5]}")
    return verdicts, results, frames


SLICE_CFG = """SPECIFICATION Spec
CHECK_DEADLOCK FALSE
"""


def judge_slices(recs, shards=16, heap="768m", timeout=3000):
    """SliceJudge.tla: recs = [{"tid", "validate", "parsed", "stream": [...], "rets": [[...], ...]}] -> {tid: verdict}"""
    if not recs:
        return {}, []
    order = sorted(recs, key=lambda t: -(len(t["stream"]) + sum(len(r) for r in t["rets"])))
    nsh = max(1, min(shards, len(recs)))
    buckets = [[] for _ in range(nsh)]
    loads = [0] * nsh
    for t in order:
        i = loads.index(min(loads))
        buckets[i].append(t)
        loads[i] += len(t["stream"]) + sum(len(r) for r in t["rets"]) + 50
    jobs = []
    for i, b in enumerate(buckets):
        path = os.path.join(common.scratch(), f"fsl-{os.getpid()}-{id(recs) % 100000}-{i}.json")
        with open(path, "w", encoding="utf-8") as f:
            json.dump(b, f)
        jobs.append(dict(module="SliceJudge", cfg=SLICE_CFG, env={"VERIF_TRACES": path}, heap=heap, timeout=timeout))
    results = tlc.run_many(jobs)
    verdicts = {}
    for res in results:
        if not res.ok():
            raise MachineryFailure("SliceJudge TLC failure: " + str(res.error or res.invariant) + "\n" + "\n".join(res.out.splitlines()[-40:]))
        for t in res.tuples("LVERDICT"):
            verdicts[t[1]] = (t[2], t[3], t[4], t[5])
    missing = [t["tid"] for t in recs if t["tid"] not in verdicts]
    if missing:
        raise MachineryFailure(f"SliceJudge: {len(missing)} traces without verdict, e.g. {missing[:5]}")
    return verdicts, results


def judge(traces, shards=16, heap="768m", timeout=3000):
    """traces: list of {"tid", "validate", "parsed", "quit", "ev"} -> {tid: (verdict, clause, pos, detail)}"""
    if not traces:
        return {}, []
    order = sorted(traces, key=lambda t: -sum(len(e["data"]) + 8 for e in t["ev"]))
    nsh = max(1, min(shards, len(traces)))
    buckets = [[] for _ in range(nsh)]
    loads = [0] * nsh
    for t in order:
        i = loads.index(min(loads))
        buckets[i].append(t)
        loads[i] += sum(len(e["data"]) + 8 for e in t["ev"])
    jobs = []
    for i, b in enumerate(buckets):
        path = os.path.join(common.scratch(), f"ftr-{os.getpid()}-{id(traces) % 100000}-{i}.json")
        with open(path, "w", encoding="utf-8") as f:
            json.dump(b, f)
        jobs.append(dict(module="FramerTrace", cfg=TRACE_CFG, env={"VERIF_TRACES": path}, heap=heap, timeout=timeout))
    results = tlc.run_many(jobs)
    verdicts = {}
    for res in results:
        if res.invariant:
            raise MachineryFailure(f"FramerTrace: invariant {res.invariant} violated\n" + "\n".join(res.out.splitlines()[-60:]))
        if not res.ok():
            raise MachineryFailure("FramerTrace TLC failure: " + str(res.error) + "\n" + "\n".join(res.out.splitlines()[-40:]))
        for t in res.tuples("FVERDICT"):
            verdicts[t[1]] = (t[2], t[3], t[4], t[5])
    missing = [t["tid"] for t in traces if t["tid"] not in verdicts]
    if missing:
        raise MachineryFailure(f"FramerTrace: {len(missing)} traces without verdict, e.g. {missing[:5]}")
    return verdicts, results
