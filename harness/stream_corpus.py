"""Shared stream corpus for the framer-family properties (untrusted generator glue)."""

import glob
import os

from . import gen_messages, gen_streams
from .common import REPO


def payload_pool(bundle, tag, n=120):
    pool = [pl for _, _, pl, _ in gen_messages.corpus(bundle, "pool:" + tag, per_ident=1)]
    pool = [p for p in pool if len(p) <= 400] or pool
    return pool[:n]


def special_payloads(bundle, rnd):
    """lengths 2, 255, 256, 1023; maximal messages"""
    out = []
    for n in (2, 3, 255, 256, 1023):
        mid = rnd.choice([0, 999, 2000, 4095])
        out.append(bytes([mid >> 4, (mid & 0xF) << 4]) + bytes(rnd.randrange(256) for _ in range(n - 2)))
    for ident in ("1077", "1127", "1004"):
        pl, _ = gen_messages.build(ident, bundle, rnd, values="random", count="max", mask="dense")
        if pl:
            out.append(pl)
    return out


def log_files():
    return sorted(glob.glob(os.path.join(REPO, "tests", "*.log")) + glob.glob(os.path.join(REPO, "tests", "*.bin")))
