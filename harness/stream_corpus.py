"""Shared stream corpus for the framer-family properties (untrusted generator glue)."""

import glob
import os

from . import gen_messages, gen_streams
from .common import REPO


def payload_pool(bundle, tag, n=120):
    pool = [pl for _, _, pl, _ in gen_messages.corpus(bundle, "pool:" + tag, per_ident=1)]
    pool = [p for p in pool if len(p) <= 400] or pool
    return pool[:n]


def special_payloads(bundle, rnd):
    """lengths 2, 255, 256, 1023; maximal messages"""
    out = []
    for n in (2, 3, 255, 256, 1023):
        mid = rnd.choice([0, 999, 2000, 4095])
        out.append(bytes([mid >> 4, (mid & 0xF) << 4]) + bytes(rnd.randrange(256) for _ in range(n - 2)))
    for ident in ("1077", "1127", "1004"):
        pl, _ = gen_messages.build(ident, bundle, rnd, values="random", count="max", mask="dense")
        if pl:
            out.append(pl)
    return out


def syncy_payloads(rnd, n=12):
    """unknown-type payloads dense in sync / header bytes, some holding a complete valid frame"""
    from .decode_rec import frame_of

    out = []
    for k in range(n):
        mid = rnd.choice([2000, 2001, 3000, 4090])
        body = bytes(rnd.choice([0xD3, 0x00, 0x01, 0x02, 0x03, 0xB5, 0x62, 0x24, 0x47, 0x0A, 0x0D, rnd.randrange(256)]) for _ in range(rnd.randint(4, 60)))
        if k % 3 == 0:
            inner = frame_of(bytes([0x3E, 0xD0]) + bytes(rnd.randrange(256) for _ in range(17)))
            body = body[: len(body) // 2] + inner + body[len(body) // 2:]
        if k % 4 == 1:
            body = b"\xd3\x00\x04" + body + b"\xd3\x03\xff"
        out.append(bytes([mid >> 4, (mid & 0xF) << 4]) + body)
    return out


def log_files():
    return sorted(glob.glob(os.path.join(REPO, "tests", "*.log")) + glob.glob(os.path.join(REPO, "tests", "*.bin")))
