"""Shared stream corpus for the framer-family properties (untrusted generator glue)."""

import glob
import os

from . import gen_messages, gen_streams
from .common import REPO


def payload_pool(bundle, tag, n=120):
    pool = [pl for _, _, pl, _ in gen_messages.corpus(bundle, "pool:" + tag, per_ident=1)]
    pool = [p for p in pool if len(p) <= 400] or pool
    return pool[:n]


def special_payloads(bundle, rnd):
    """lengths 2, 255, 256, 1023; maximal messages"""
    out = []
    for n in (2, 3, 255, 256, 1023):
        mid = rnd.choice([0, 999, 2000, 4095])
        out.append(bytes([mid >> 4, (mid & 0xF) << 4]) + bytes(rnd.randrange(256) for _ in range(n - 2)))
    for ident in ("1077", "1127", "1004"):
        pl, _ = gen_messages.build(ident, bundle, rnd, values="random", count="max", mask="dense")
        if pl:
            out.append(pl)
    # groups with 100 and more elements (three-digit indices)
    for ident, ov in (("1029", {"DF139": 100}), ("1029", {"DF139": 255}), ("1007", {"DF029": 120}), ("1008", {"DF029": 31, "DF032": 101}),
                      ("1033", {"DF029": 100, "DF227": 130})):
        try:
            pl, _ = gen_messages.build(ident, bundle, rnd, values="random", count=3, overrides=ov)
        except Exception:  # pylint: disable=broad-except
            pl = None
        if pl and len(pl) <= 1023:
            out.append(pl)
    # payloads that are themselves complete, checksum-consistent frames (a frame inside a frame)
    out += [pl for pl in framelike_payloads(rnd) if len(pl) >= 8]
    out += crc_targeted_payloads(bundle, rnd)
    out += texty_payloads(bundle, rnd, 12, defined_ok=False)      # (stubs only: every special payload must be deliverable)
    return out


def texty_payloads(bundle, rnd, n=24, defined_ok=True):
    """
    Binary payloads that happen to LOOK like text: every byte an ASCII hex digit (even and odd
    lengths), base64 alphabet, printable ASCII, digits only.  The first two bytes give the message
    number: both unknown numbers (stubs) and numbers with a payload definition occur (whether such a
    payload decodes is for the specification to say).
    """
    hexd = b"0123456789abcdefABCDEF"
    alph = [hexd, hexd, b"0123456789", b"ABCDEFGHIJKLMNOPQRSTUVWXYZabcdefghijklmnopqrstuvwxyz0123456789+/=", bytes(range(0x20, 0x7F))]
    defined = {int(i.split("_")[0]) for i in bundle["defs"]}
    out = []
    heads = [(a, b) for a in hexd for b in hexd]
    rnd.shuffle(heads)
    want_def = [h for h in heads if ((h[0] << 4) | (h[1] >> 4)) in defined][: n // 3] if defined_ok else []
    for k in range(n):
        al = alph[k % len(alph)]
        if k < len(want_def):
            head, al = bytes(want_def[k]), hexd
        else:
            head = bytes([rnd.choice(al), rnd.choice(al)])
            while not defined_ok and ((head[0] << 4) | (head[1] >> 4)) in defined:
                head = bytes([rnd.choice(al), rnd.choice(al)])
        ln = rnd.choice([2, 4, 6, 12, 13, 20, 38, 64])
        out.append(head + bytes(rnd.choice(al) for _ in range(ln - 2)))
    return out


def crc_targeted_payloads(bundle, rnd):
    """
    Payloads whose FRAME has chosen CRC-24Q bytes (zero, leading zeros, all ones, sync / foreign
    header bytes, CR LF): probability 2^-16 .. 2^-24 each for random payloads.  The last three
    payload bytes are solved for the target (gen_crc.solve_tail); the carriers are an unknown
    message type (stub) and 1005, whose last bytes are the low bits of DF027 (any value decodes).
    """
    from . import gen_crc

    targets = [0x000000, 0x0000A7, 0x00005A, 0x00D300, 0xD30000, 0xD30001, 0xFFFFFF, 0xB56200, 0x244700, 0x0D0A00, 0x000D0A, 0x0000D3]
    carriers = [bytes([0x7D, 0x10]) + bytes(rnd.randrange(256) for _ in range(rnd.randint(6, 30)))]
    p1005, _ = gen_messages.build("1005", bundle, rnd, values="random")
    if p1005:
        carriers.append(p1005)
    out = []
    for i, tg in enumerate(targets):
        pl = carriers[i % len(carriers)]
        hdr = b"\xd3" + len(pl).to_bytes(2, "big")
        out.append(pl[:-3] + gen_crc.solve_tail(hdr + pl[:-3], tg))
    return out


def syncy_payloads(rnd, n=12):
    """unknown-type payloads dense in sync / header bytes, some holding a complete valid frame"""
    from .decode_rec import frame_of

    out = []
    for k in range(n):
        mid = rnd.choice([2000, 2001, 3000, 4090])
        body = bytes(rnd.choice([0xD3, 0x00, 0x01, 0x02, 0x03, 0xB5, 0x62, 0x24, 0x47, 0x0A, 0x0D, rnd.randrange(256)]) for _ in range(rnd.randint(4, 60)))
        if k % 3 == 0:
            inner = frame_of(bytes([0x3E, 0xD0]) + bytes(rnd.randrange(256) for _ in range(17)))
            body = body[: len(body) // 2] + inner + body[len(body) // 2:]
        if k % 4 == 1:
            body = b"\xd3\x00\x04" + body + b"\xd3\x03\xff"
        out.append(bytes([mid >> 4, (mid & 0xF) << 4]) + body)
    return out


def special_int_payloads(rnd):
    """payloads whose integer value is special: zero, all ones, multiples of 2^61-1 / 2^31-1 (CPython hash moduli)"""
    out = [bytes(n) for n in (2, 3, 8, 19, 40)] + [b"\xff" * n for n in (2, 19)]
    for mod in ((1 << 61) - 1, (1 << 31) - 1):
        for mid in (1005, 1230, 999, 1077):
            n = 25
            hi = (mid << (n * 8 - 12))
            v = hi + ((-hi) % mod)                  # smallest multiple of mod with this message number
            if v >> (n * 8 - 12) == mid:
                out.append(v.to_bytes(n, "big"))
    return out


def framelike_payloads(rnd):
    """payloads that themselves look like an RTCM3 frame (0xD3, six zero bits, a length field equal to
    len - 6): message numbers 3376..3379, with and without a consistent inner CRC"""
    from .decode_rec import crc24q

    out = []
    for L in (6, 7, 9, 12, 25, 60, 262):
        inner = L - 6
        for mid_lo in (0, 1):
            hdr = bytes([0xD3, ((inner >> 8) & 3), inner & 0xFF])
            body = bytes([0x3E, 0xD0][:inner]) + bytes(rnd.randrange(256) for _ in range(max(0, inner - 2)))
            body = body[:inner]
            tail = crc24q(hdr + body).to_bytes(3, "big") if mid_lo == 0 else bytes(rnd.randrange(256) for _ in range(3))
            out.append(hdr + body + tail)
    return out


def log_files():
    return sorted(glob.glob(os.path.join(REPO, "tests", "*.log")) + glob.glob(os.path.join(REPO, "tests", "*.bin")))


def crc_target_stream(bundle, rnd, pool):
    """every special and every CRC-targeted frame (lengths 2, 3, 255, 256, 1023, maximal messages, frame-like
    payloads, chosen CRC bytes), each followed by an ordinary frame -> (bytes, [frame bytes])"""
    from .decode_rec import frame_of

    frames = []
    for pl in special_payloads(bundle, rnd):
        frames.append(frame_of(pl))
        frames.append(frame_of(rnd.choice(pool[:20])))
    return b"".join(frames), frames


def validate_values():
    """
    -> (values meaning "checksum validation ON", values meaning OFF).  `validate` is a set of flags
    (the library tests `validate & VALCKSUM`; its sister libraries share masks such as
    VALCKSUM | VALMSGID): ON = every value with the checksum bit, OFF = every value without it.
    Included: the documented 1 / 0, the checksum bit with other bits (3, 5, 0x11, 0xFF), other bits
    alone (2, 4, 0x10), and every combination of the VAL* constants the library exports.
    """
    import pyrtcm.rtcmtypes_core as core

    flags = sorted({v for k, v in vars(core).items() if k.startswith("VAL") and isinstance(v, int) and not isinstance(v, bool) and 0 <= v < 1 << 16})
    cks = getattr(core, "VALCKSUM", 1)
    allv = 0
    for v in flags:
        allv |= v
    on = sorted({cks, cks | 2, cks | 4, cks | 0x10, 0xFF | cks, allv | cks} | {cks | v for v in flags})
    off = sorted(({0, 2, 4, 0x10, allv & ~cks} | {v for v in flags}) - {v for v in ({0, 2, 4, 0x10, allv} | set(flags)) if v & cks})
    return on, off
