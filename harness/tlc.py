"""
TLC runner: small fixed heap, SerialGC (DESIGN 2.5), output parsing,
parallel sharding over processes.
"""

import concurrent.futures
import os
import re
import subprocess
import time
import uuid

from .common import SPEC, MachineryFailure, scratch

JARS = "/opt/veriftools/tla/tla2tools.jar:/opt/veriftools/tla/CommunityModules-deps.jar"


class TlcResult:
    def __init__(self, cmd, rc, out, wall):
        self.cmd = cmd
        self.rc = rc
        self.out = out
        self.wall = wall
        self.generated = 0
        self.distinct = 0
        self.depth = 0
        m = None
        for m in re.finditer(
            r"(\d+) states generated, (\d+) distinct states found, (\d+) states left on queue", out
        ):
            pass
        if m:
            self.generated, self.distinct = int(m.group(1)), int(m.group(2))
        m = re.search(r"The depth of the complete state graph search is (\d+)", out)
        if m:
            self.depth = int(m.group(1))
        self.finished = "Model checking completed. No error has been found." in out or (
            "Finished in" in out and "Error:" not in out
        )
        self.invariant = None
        m = re.search(r"Invariant (\S+) is violated", out)
        if m:
            self.invariant = m.group(1)
        m = re.search(r"Action property (\S+) is violated", out)
        if m:
            self.invariant = m.group(1)
        if "Temporal properties were violated" in out:
            self.invariant = self.invariant or "temporal"
        self.deadlock = "Deadlock reached" in out
        self.error = None
        if self.invariant is None and not self.deadlock and not self.finished:
            m = re.search(r"Error: (.*)", out)
            self.error = m.group(1) if m else f"rc={rc}"

    def ok(self):
        return self.finished and self.invariant is None and not self.deadlock and self.error is None

    def summary(self):
        return {
            "cmd": " ".join(self.cmd[-8:]),
            "states": self.distinct,
            "transitions": self.generated,
            "depth": self.depth,
            "wall_s": round(self.wall, 2),
            "ok": self.ok(),
        }

    # ---- PrintT tuples ---------------------------------------------------
    def tuples(self, tag):
        """All printed tuples `<<"tag", ...>>` parsed into python lists."""
        res = []
        out = self.out
        pat = re.compile(r'<<\s*"' + re.escape(tag) + '"')
        i = 0
        while True:
            m = pat.search(out, i)
            if not m:
                break
            val, j = parse_value(out, m.start())
            res.append(val)
            i = j
        return res

    # ---- coverage --------------------------------------------------------
    def action_coverage(self):
        """{action name: (distinct, total)} from `-coverage` output."""
        cov = {}
        for m in re.finditer(r"<(\w+) line \d+, col \d+ to line \d+, col \d+ of module (\w+)>: (\d+):(\d+)", self.out):
            name = m.group(1)
            d, t = int(m.group(3)), int(m.group(4))
            if name in cov:
                cov[name] = (cov[name][0] + d, cov[name][1] + t)
            else:
                cov[name] = (d, t)
        return cov


def parse_value(s, i=0):
    """Parse one TLA+ value as printed by TLC starting at s[i]; returns (value, next index)."""
    n = len(s)

    def ws(i):
        while i < n and s[i] in " \t\r\n":
            i += 1
        return i

    def val(i):
        i = ws(i)
        c = s[i]
        if s.startswith("<<", i):
            i += 2
            items = []
            i = ws(i)
            if s.startswith(">>", i):
                return items, i + 2
            while True:
                v, i = val(i)
                items.append(v)
                i = ws(i)
                if s.startswith(">>", i):
                    return items, i + 2
                if s[i] != ",":
                    raise ValueError(f"bad tuple at {i}: {s[i:i+30]!r}")
                i += 1
        if c == "{":
            i += 1
            items = []
            i = ws(i)
            if s[i] == "}":
                return {"set": items}, i + 1
            while True:
                v, i = val(i)
                items.append(v)
                i = ws(i)
                if s[i] == "}":
                    return {"set": items}, i + 1
                if s[i] != ",":
                    raise ValueError(f"bad set at {i}")
                i += 1
        if c == "[":
            i += 1
            rec = {}
            while True:
                i = ws(i)
                m = re.compile(r"(\w+)\s*\|->").match(s, i)
                if not m:
                    raise ValueError(f"bad record at {i}: {s[i:i+30]!r}")
                i = m.end()
                v, i = val(i)
                rec[m.group(1)] = v
                i = ws(i)
                if s[i] == "]":
                    return rec, i + 1
                if s[i] != ",":
                    raise ValueError(f"bad record sep at {i}")
                i += 1
        if c == '"':
            j = i + 1
            buf = []
            while s[j] != '"':
                if s[j] == "\\":
                    j += 1
                buf.append(s[j])
                j += 1
            return "".join(buf), j + 1
        m = re.compile(r"-?\d+").match(s, i)
        if m:
            return int(m.group(0)), m.end()
        m = re.compile(r"\w+").match(s, i)
        if m:
            w = m.group(0)
            return {"TRUE": True, "FALSE": False}.get(w, w), m.end()
        raise ValueError(f"cannot parse value at {i}: {s[i:i+30]!r}")

    return val(i)


def run(
    module,
    cfg,
    env=None,
    workers=1,
    heap="384m",
    extra=(),
    timeout=3600,
    coverage=False,
    deadlock=None,
    specdir=SPEC,
    fpmem="0.05",
    props=None,
):
    """
    Run TLC on `module` (in specdir) with the text of a configuration file.
    env: extra environment variables (read by the spec through IOEnv).
    """
    sc = scratch()
    uid = uuid.uuid4().hex[:10]
    cfgp = os.path.join(sc, f"{module}-{uid}.cfg")
    with open(cfgp, "w", encoding="utf-8") as f:
        f.write(cfg)
    meta = os.path.join(sc, f"meta-{uid}")
    cmd = [
        "java",
        f"-Xms{heap}",
        f"-Xmx{heap}",
        "-Xss512m",
        "-XX:+UseSerialGC",
    ]
    for k, v in (props or {}).items():
        cmd.append(f"-D{k}={v}")
    cmd += [
        "-cp",
        JARS,
        "tlc2.TLC",
        "-workers",
        str(workers),
        "-fpmem",
        fpmem,
        "-metadir",
        meta,
        "-noGenerateSpecTE",
        "-config",
        cfgp,
    ]
    if coverage:
        cmd += ["-coverage", "1"]
    if deadlock is False:
        cmd += ["-deadlock"]
    cmd += list(extra)
    cmd.append(module)
    e = dict(os.environ)
    e.pop("JAVA_TOOL_OPTIONS", None)
    if env:
        e.update({k: str(v) for k, v in env.items()})
    t0 = time.time()
    try:
        p = subprocess.run(
            cmd, cwd=specdir, env=e, capture_output=True, text=True, timeout=timeout, check=False
        )
        out = p.stdout + p.stderr
        rc = p.returncode
    except subprocess.TimeoutExpired as ex:
        out = (ex.stdout or b"").decode(errors="replace") if isinstance(ex.stdout, bytes) else (ex.stdout or "")
        out += "\nError: TIMEOUT"
        rc = -9
    res = TlcResult(cmd, rc, out, time.time() - t0)
    subprocess.run(["rm", "-rf", meta], check=False)
    return res


def must_ok(res, what):
    """A TLC run that is part of the machinery must complete; otherwise exit 2."""
    if not res.ok():
        tail = "\n".join(res.out.splitlines()[-40:])
        raise MachineryFailure(f"TLC failed for {what}: inv={res.invariant} err={res.error}\n{tail}")
    return res


def run_many(jobs, max_procs=16):
    """jobs: list of kwargs for run(); executed concurrently, results in order."""
    if not jobs:
        return []
    with concurrent.futures.ThreadPoolExecutor(max_workers=min(max_procs, len(jobs))) as ex:
        futs = [ex.submit(run, **j) for j in jobs]
        return [f.result() for f in futs]
