"""Framer engine: MC of Framer.tla, trace validation of the real reader, composition with the decode judge."""

import io

from . import common, decode_rec, framer_rec, sockdouble, tlc
from .common import MachineryFailure, digest

MC_CFG = """SPECIFICATION Spec
CONSTANTS EnvMode = "%(mode)s"
 A = {0, 1, 2, 10, 36, 71, 98, 181, 211, 62, 208}
 MaxPay = %(maxpay)d
 Budget = %(budget)d
 MaxItems = 3
 DefinedMids = {%(mids)s}
 Damage = %(damage)s
 OptSet <- %(optset)s
 HRaise = %(hraise)s
INVARIANT TypeOK
INVARIANT CurShape
INVARIANT SliceOK
INVARIANT OnlyLibraryErrors
INVARIANT ModeDiscipline
INVARIANT RequestIsNeed
INVARIANT DebtSettled
INVARIANT NoLoss
INVARIANT NoStarve
INVARIANT RaiseThenResume
%(live)s
CHECK_DEADLOCK FALSE
"""


def defined_mids(bundle):
    return sorted({int(i.split("_")[0]) for i in bundle["defs"] if "_" not in i})


def mc(rep, mode, budget, maxpay=1, damage=False, optset="OptCore", liveness=True, bundle=None, workers=8, extra=(), hraise=False):
    mids = defined_mids(bundle) if bundle else [1005]
    cfg = MC_CFG % dict(mode=mode, maxpay=maxpay, budget=budget, mids=", ".join(map(str, mids)),
                        damage="TRUE" if damage else "FALSE", optset=optset, live="PROPERTY Terminates" if liveness else "",
                        hraise="TRUE" if hraise else "FALSE")
    res = tlc.run("MC_Framer", cfg, workers=workers, heap="3g", coverage=True, extra=extra, timeout=3000)
    tlc.must_ok(res, f"MC_Framer {mode} budget={budget}")
    cov = res.action_coverage()
    need = ["Call", "AnswerBytes"] if mode == "bytes" else ["Call", "Produce", "AnswerItems"]
    dead = [a for a in need if cov.get(a, (0, 0))[1] == 0]
    if dead:
        raise MachineryFailure(f"MC_Framer {mode}: actions never taken: {dead}")
    rep.add_tlc(res)
    rep.notes.setdefault("mc_framer", []).append({"mode": mode, "budget": budget, "maxpay": maxpay, "damage": damage,
                                                  "optset": optset, "states": res.distinct, "coverage": {a: cov[a][1] for a in need}})
    return res


def make_stream(kind, data, rnd=None, faults=None, seg=None, bufsize=4096):
    """-> (stream object for RTCMReader, wrap?, info)"""
    if kind == "scripted":
        st = framer_rec.ScriptedStream(data, faults)
        st._verif_retries = 6 if faults else 0      # resume after injected empty answers
        return st, True
    if kind == "bytesio":
        return io.BytesIO(data), True
    if kind == "buffered":
        return io.BufferedReader(io.BytesIO(data), buffer_size=rnd.choice([1, 16, 4096]) if rnd else 16), True
    if kind == "pipe":
        # a NON-SEEKABLE io stream (the read end of a pipe: tell() / seek() raise); small enough for the pipe buffer
        import os as _os

        if len(data) > 60000:
            return io.BytesIO(data), True
        rfd, wfd = _os.pipe()
        _os.write(wfd, data)
        _os.close(wfd)
        return _os.fdopen(rfd, "rb"), True
    if kind == "socket":
        # public API only: the wrapper is built explicitly and the recording proxy sits between the
        # reader and the wrapper (the reader's own isinstance(socket) wrapping is exercised, without
        # recording, by the direct comparisons in C02 / C11)
        from pyrtcm.socketwrapper import SocketWrapper

        sock = sockdouble.ScriptedSocket(data, seg or [])
        w = SocketWrapper(sock, bufsize=bufsize)
        w._verif_sock = sock  # keep a handle for closing (attribute on OUR object graph only)
        return w, True
    raise ValueError(kind)


class Traces:
    def __init__(self, rep, bundle=None):
        self.rep = rep
        self.traces = []
        self.meta = {}
        self.results = {}

    def add(self, data, kind="scripted", validate=1, parsed=True, quit=1, handler=True, faults=None, seg=None,
            bufsize=4096, labelmsm=1, rnd=None, use_iter=False, hraise=None, **meta):
        tid = len(self.traces) + 1
        stream, wrap = make_stream(kind, data, rnd, faults, seg, bufsize)
        try:
            ev, res = framer_rec.run_reader(stream, validate=validate, parsed=parsed, quit=quit, handler=handler,
                                            labelmsm=labelmsm, wrap=wrap, use_iter=use_iter, max_calls=len(data) + 50, hraise=hraise)
        finally:
            if kind == "socket":
                stream._verif_sock.close()
            elif kind == "pipe":
                stream.close()
        self.traces.append({"tid": tid, "validate": int(validate), "parsed": bool(parsed), "quit": int(quit), "hraise": bool(hraise), "ev": ev})
        meta.update(kind=kind, validate=validate, parsed=parsed, quit=quit, handler=handler, data=data, faults=faults, seg=seg)
        self.meta[tid] = meta
        self.results[tid] = res
        return tid, ev, res

    def fault_free(self, tid):
        m = self.meta[tid]
        if m.get("faults"):
            return False
        if m["kind"] == "socket" and any(not isinstance(x, int) for x in (m.get("seg") or [])):
            return False
        return True

    def out_records(self, tids):
        out = []
        for tid in tids:
            tr = self.traces[tid - 1]
            out.append({"tid": tid, "validate": tr["validate"], "parsed": tr["parsed"], "quit": tr["quit"], "hraise": tr["hraise"],
                        "stream": list(self.meta[tid]["data"]), "ob": framer_rec.observables(tr)})
        return out

    def slice_records(self, tids):
        out = []
        for tid in tids:
            tr = self.traces[tid - 1]
            out.append({"tid": tid, "validate": tr["validate"], "parsed": tr["parsed"], "stream": list(self.meta[tid]["data"]),
                        "rets": [list(e["raw"]) for e in tr["ev"] if e["then"] == "ret"]})
        return out

    def judge(self, shards=16, always_out=False, slices=False):
        """
        Exact binding first (FramerTrace: every request is the specification's request).  A trace
        that is rejected for its READ PATTERN alone is judged again at output level (FramerOut):
        the listed properties are about what is delivered, not about request sizes.
        """
        verdicts, results = framer_rec.judge(self.traces, shards=shards)
        for r in results:
            self.rep.add_tlc(r)
        self.rep.count("traces_validated_against_impl", len(self.traces))
        frames = []
        for r in results:
            for t in r.tuples("FRAME"):
                frames.append((t[1], t[2], bytes(t[3]), t[4]))
        pattern = [tid for tid, v in verdicts.items() if v[0] == "reject" and v[1] in framer_rec.PATTERN_CLAUSES]
        self.out_verdicts = {}
        if pattern or always_out:
            ff = [t["tid"] for t in self.traces if self.fault_free(t["tid"])]
            todo = ff if pattern else ff[:: max(1, len(ff) // 400)]
            ov, ores, oframes = framer_rec.judge_out(self.out_records(todo), shards=shards)
            for r in ores:
                self.rep.add_tlc(r)
            self.out_verdicts = ov
            if pattern:
                dev = {"traces": len(pattern), "judged_in_outputs": 0, "unjudged_faulted": 0,
                       "example": list(verdicts[pattern[0]][1:])[:3]}
                for tid in pattern:
                    if tid in ov:
                        dev["judged_in_outputs"] += 1
                        v = ov[tid]
                        verdicts[tid] = (v[0], v[1] if v[0] == "accept" else "Out:" + v[1], v[2], v[3])
                        frames = [f for f in frames if f[0] != tid] + [f for f in oframes if f[0] == tid]
                    else:
                        # injected faults are tied to the request sequence: with another read pattern the
                        # expected outcome is not defined by the properties - not judged (noted in the evidence)
                        dev["unjudged_faulted"] += 1
                        verdicts[tid] = ("accept", "ReadPatternDeviates:unjudged", verdicts[tid][2], verdicts[tid][3])
                # an exactly accepted trace can still be wrong in outputs only if the specification is inconsistent
                self.rep.notes["read_pattern_deviation"] = dev
            for tid, v in ov.items():
                if v[0] == "reject" and tid not in pattern and verdicts[tid][0] == "accept":
                    # the reader conforms at ITS interface but the outputs do not follow from the bytes of
                    # the stream: the layer below the recorded interface (socket wrapper, buffering)
                    # answered with something else than the next bytes
                    verdicts[tid] = ("reject", "Out:" + v[1], v[2], v[3])
            self.rep.notes["output_level_traces"] = len(ov)
        # the core of C01 as a predicate on (stream, delivered frames), whatever the read pattern and
        # whatever faults were injected (SliceJudge.tla): for every trace when asked for, and always for
        # the traces neither binding could judge
        unj = [tid for tid, v in verdicts.items() if v[1] == "ReadPatternDeviates:unjudged"]
        todo = [t["tid"] for t in self.traces] if slices else unj
        if todo:
            sv, sres = framer_rec.judge_slices(self.slice_records(todo), shards=shards)
            for r in sres:
                self.rep.add_tlc(r)
            for tid, v in sv.items():
                if v[0] == "reject" and verdicts[tid][0] == "accept":
                    verdicts[tid] = ("reject", "Slice:" + v[1], v[2], v[3])
                elif verdicts[tid][1] == "ReadPatternDeviates:unjudged":
                    verdicts[tid] = ("accept", "ReadPatternDeviates:slices-only", verdicts[tid][2], verdicts[tid][3])
            self.rep.notes["slice_judged_traces"] = len(sv)
        self.frames = frames
        return verdicts

    def replay_of(self, tid, verdict):
        m = self.meta[tid]
        tr = self.traces[tid - 1]
        k = verdict[2]
        win = tr["ev"][max(0, k - 4) : k + 1]
        return {
            "engine": "framer",
            "stream_hex": m["data"].hex(),
            "kind": m["kind"],
            "options": {"validate": m["validate"], "parsed": m["parsed"], "quitonerror": m["quit"], "handler": m["handler"]},
            "faults": {str(k2): list(v) for k2, v in (m.get("faults") or {}).items()},
            "segmentation": m.get("seg"),
            "spec_verdict": list(verdict),
            "events_near": [{kk: (vv if kk not in ("data", "raw") else bytes(vv).hex()[:80]) for kk, vv in e.items()} for e in win],
        }


def composition(rep, traces, verdicts, corp, limit=400):
    """
    Every complete frame the reader saw (FRAME tuples printed by the trace spec) is parsed
    directly with RTCMReader.parse under the trace's validate option: the outcome must be
    the one the reader showed, and the direct parse is judged by DecodeJudge (added to corp).
    Returns list of (tid, k, rid, reader_then).
    """
    seen = set()
    out = []
    for tid, k, raw, then in traces.frames:
        m = traces.meta[tid]
        if not m["parsed"]:
            continue
        key = (raw, m["validate"])
        if key in seen or len(seen) >= limit:
            continue
        seen.add(key)
        rid, r, msg = corp.add(None, m.get("labelmsm", 1), via="parse", frame=raw, validate=m["validate"], ident="frame", kind="composition", lbl=False)
        reader_ok = then == "ret"
        if reader_ok != (r["out"] == "msg"):
            rep.reject("ReaderParseInconsistent", {"engine": "framer", "then": then, "direct": r["out"] + ":" + r["cls"]},
                       {"frame_hex": raw.hex(), "validate": m["validate"], "reader_followup": then, "direct_parse": r["out"] + ":" + r["cls"]})
        out.append((tid, k, rid, then))
    return out
