"""Framer engine: MC of Framer.tla, trace validation of the real reader, composition with the decode judge."""

import io

from . import common, decode_rec, framer_rec, sockdouble, tlc
from .common import MachineryFailure, digest

MC_CFG = """SPECIFICATION Spec
CONSTANTS EnvMode = "%(mode)s"
 A = {0, 1, 2, 10, 36, 71, 98, 181, 211, 62, 208}
 MaxPay = %(maxpay)d
 Budget = %(budget)d
 MaxItems = 3
 DefinedMids = {%(mids)s}
 Damage = %(damage)s
 OptSet <- %(optset)s
 HRaise = %(hraise)s
INVARIANT TypeOK
INVARIANT CurShape
INVARIANT SliceOK
INVARIANT OnlyLibraryErrors
INVARIANT ModeDiscipline
INVARIANT RequestIsNeed
INVARIANT DebtSettled
INVARIANT NoLoss
INVARIANT NoStarve
INVARIANT RaiseThenResume
%(live)s
CHECK_DEADLOCK FALSE
"""


def defined_mids(bundle):
    return sorted({int(i.split("_")[0]) for i in bundle["defs"] if "_" not in i})


def mc(rep, mode, budget, maxpay=1, damage=False, optset="OptCore", liveness=True, bundle=None, workers=8, extra=(), hraise=False):
    mids = defined_mids(bundle) if bundle else [1005]
    cfg = MC_CFG % dict(mode=mode, maxpay=maxpay, budget=budget, mids=", ".join(map(str, mids)),
                        damage="TRUE" if damage else "FALSE", optset=optset, live="PROPERTY Terminates" if liveness else "",
                        hraise="TRUE" if hraise else "FALSE")
    res = tlc.run("MC_Framer", cfg, workers=workers, heap="3g", coverage=True, extra=extra, timeout=3000)
    tlc.must_ok(res, f"MC_Framer {mode} budget={budget}")
    cov = res.action_coverage()
    need = ["Call", "AnswerBytes"] if mode == "bytes" else ["Call", "Produce", "AnswerItems"]
    dead = [a for a in need if cov.get(a, (0, 0))[1] == 0]
    if dead:
        raise MachineryFailure(f"MC_Framer {mode}: actions never taken: {dead}")
    rep.add_tlc(res)
    rep.notes.setdefault("mc_framer", []).append({"mode": mode, "budget": budget, "maxpay": maxpay, "damage": damage,
                                                  "optset": optset, "states": res.distinct, "coverage": {a: cov[a][1] for a in need}})
    return res


def make_stream(kind, data, rnd=None, faults=None, seg=None, bufsize=4096):
    """-> (stream object for RTCMReader, wrap?, info)"""
    if kind == "scripted":
        st = framer_rec.ScriptedStream(data, faults)
        st._verif_retries = 6 if faults else 0      # resume after injected empty answers
        return st, True
    if kind == "bytesio":
        return io.BytesIO(data), True
    if kind == "buffered":
        return io.BufferedReader(io.BytesIO(data), buffer_size=rnd.choice([1, 16, 4096]) if rnd else 16), True
    if kind == "socket":
        # public API only: the wrapper is built explicitly and the recording proxy sits between the
        # reader and the wrapper (the reader's own isinstance(socket) wrapping is exercised, without
        # recording, by the direct comparisons in C02 / C11)
        from pyrtcm.socketwrapper import SocketWrapper

        sock = sockdouble.ScriptedSocket(data, seg or [])
        w = SocketWrapper(sock, bufsize=bufsize)
        w._verif_sock = sock  # keep a handle for closing (attribute on OUR object graph only)
        return w, True
    raise ValueError(kind)


class Traces:
    def __init__(self, rep, bundle=None):
        self.rep = rep
        self.traces = []
        self.meta = {}
        self.results = {}

    def add(self, data, kind="scripted", validate=1, parsed=True, quit=1, handler=True, faults=None, seg=None,
            bufsize=4096, labelmsm=1, rnd=None, use_iter=False, hraise=None, **meta):
        tid = len(self.traces) + 1
        stream, wrap = make_stream(kind, data, rnd, faults, seg, bufsize)
        try:
            ev, res = framer_rec.run_reader(stream, validate=validate, parsed=parsed, quit=quit, handler=handler,
                                            labelmsm=labelmsm, wrap=wrap, use_iter=use_iter, max_calls=len(data) + 50, hraise=hraise)
        finally:
            if kind == "socket":
                stream._verif_sock.close()
        self.traces.append({"tid": tid, "validate": int(validate), "parsed": bool(parsed), "quit": int(quit), "hraise": bool(hraise), "ev": ev})
        meta.update(kind=kind, validate=validate, parsed=parsed, quit=quit, handler=handler, data=data, faults=faults, seg=seg)
        self.meta[tid] = meta
        self.results[tid] = res
        return tid, ev, res

    def judge(self, shards=16):
        verdicts, results = framer_rec.judge(self.traces, shards=shards)
        for r in results:
            self.rep.add_tlc(r)
        self.rep.count("traces_validated_against_impl", len(self.traces))
        frames = []
        for r in results:
            for t in r.tuples("FRAME"):
                frames.append((t[1], t[2], bytes(t[3]), t[4]))
        self.frames = frames
        return verdicts

    def replay_of(self, tid, verdict):
        m = self.meta[tid]
        tr = self.traces[tid - 1]
        k = verdict[2]
        win = tr["ev"][max(0, k - 4) : k + 1]
        return {
            "engine": "framer",
            "stream_hex": m["data"].hex(),
            "kind": m["kind"],
            "options": {"validate": m["validate"], "parsed": m["parsed"], "quitonerror": m["quit"], "handler": m["handler"]},
            "faults": {str(k2): list(v) for k2, v in (m.get("faults") or {}).items()},
            "segmentation": m.get("seg"),
            "spec_verdict": list(verdict),
            "events_near": [{kk: (vv if kk not in ("data", "raw") else bytes(vv).hex()[:80]) for kk, vv in e.items()} for e in win],
        }


def composition(rep, traces, verdicts, corp, limit=400):
    """
    Every complete frame the reader saw (FRAME tuples printed by the trace spec) is parsed
    directly with RTCMReader.parse under the trace's validate option: the outcome must be
    the one the reader showed, and the direct parse is judged by DecodeJudge (added to corp).
    Returns list of (tid, k, rid, reader_then).
    """
    seen = set()
    out = []
    for tid, k, raw, then in traces.frames:
        m = traces.meta[tid]
        if not m["parsed"]:
            continue
        key = (raw, m["validate"])
        if key in seen or len(seen) >= limit:
            continue
        seen.add(key)
        rid, r, msg = corp.add(None, m.get("labelmsm", 1), via="parse", frame=raw, validate=m["validate"], ident="frame", kind="composition", lbl=False)
        reader_ok = then == "ret"
        if reader_ok != (r["out"] == "msg"):
            rep.reject("ReaderParseInconsistent", {"engine": "framer", "then": then, "direct": r["out"] + ":" + r["cls"]},
                       {"frame_hex": raw.hex(), "validate": m["validate"], "reader_followup": then, "direct_parse": r["out"] + ":" + r["cls"]})
        out.append((tid, k, rid, then))
    return out
