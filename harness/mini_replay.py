"""
Replay of the mini-definitions through the REAL interpreter (runs in its own
process because it registers synthetic definitions and shrinks the IDF03x
field widths in the live tables).

usage: python -m harness.mini_replay OUT.json FREEBITS [STRIDE] [LABEL]
Writes decode records for every payload  number(12) ++ t(FREEBITS) ++ 0-padding.
"""

import json
import sys

from . import common  # noqa: F401
from . import decode_rec, minidefs


def payload_of(mid, t, freebits):
    nbytes = 2 + ((freebits - 4 + 7) // 8)
    tail = 8 * nbytes - 12
    v = (mid << tail) | (t << (tail - freebits))
    return v.to_bytes(nbytes, "big")


def main():
    out, freebits = sys.argv[1], int(sys.argv[2])
    stride = int(sys.argv[3]) if len(sys.argv) > 3 else 1
    minidefs.register()
    from pyrtcm.rtcmtypes_core import RTCM_DATA_FIELDS

    recs = []
    rid = 0
    for ident in sorted(minidefs.MINI_DEFS):
        for t in range(0, 1 << freebits, stride):
            rid += 1
            pl = payload_of(int(ident), t, freebits)
            r, _ = decode_rec.record_decode(rid, pl, 1, fields=RTCM_DATA_FIELDS)
            recs.append(r)
    with open(out, "w", encoding="utf-8") as f:
        json.dump(recs, f)


if __name__ == "__main__":
    main()
