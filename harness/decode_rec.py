"""
Recording real decodes (RTCMMessage constructor / RTCMReader.parse) and
judging them with DecodeJudge.tla.

Projection (trusted glue, DESIGN 2.2): implementation values -> spec values
  int            -> {"k":"i","s":sign,"m":[binary expansion of |v|, MSB first]}
  float/int of a scaled field -> raw = round(v / resolution), accepted only if
                    raw * resolution == v by the identical IEEE operation
  str            -> {"k":"s","c":[code points],"t":text if plain ASCII,"num":int(text) or -1}
"""

import inspect
import json
import os
import re

from . import common, tlc
from .common import MachineryFailure


def lib_classes():
    import pyrtcm.exceptions as ex

    return tuple(
        c for _, c in inspect.getmembers(ex, inspect.isclass) if issubclass(c, Exception) and c.__module__ == ex.__name__
    )


def lab_of(labelmsm):
    if labelmsm is True or labelmsm == 1:
        return "rinex"
    if labelmsm == 2:
        return "band"
    return "either"


def _plain(s):
    return all(32 <= ord(ch) < 127 and ch not in '"\\' for ch in s)


def base_of(name, fields):
    """longest prefix of `name` that is a data field, stripping trailing _NN groups"""
    n = name
    while True:
        if n in fields:
            return n
        i = n.rfind("_")
        if i < 0 or not n[i + 1 :].isdigit():
            return None
        n = n[:i]


def project_attr(name, v, fields):
    """-> (record, scale_ok)"""
    rec = {"n": name, "k": "", "s": 0, "m": [], "c": [], "t": "", "num": -1}
    if isinstance(v, bool):
        v = int(v)
    if isinstance(v, str):
        rec["k"] = "s"
        rec["c"] = [ord(ch) for ch in v]
        rec["t"] = v if _plain(v) else ""
        rec["num"] = int(v) if (v.isdigit() and v.isascii() and len(v) < 9) else -1
        return rec, True
    if isinstance(v, (int, float)):
        base = base_of(name, fields)
        ok = True
        raw = v
        if base is not None:
            res = fields[base][2]
            if res not in (0, 1):
                try:
                    raw = round(v / res)
                    ok = (raw * res == v) or (isinstance(v, float) and raw * res == v)
                except (OverflowError, ValueError, ZeroDivisionError):
                    ok = False
                    raw = 0
        if isinstance(raw, float):
            if raw != raw or raw in (float("inf"), float("-inf")):
                ok, raw = False, 0
            elif raw.is_integer():
                raw = int(raw)
            else:
                ok, raw = False, 0
        rec["k"] = "i"
        rec["s"] = 1 if raw < 0 else 0
        rec["m"] = [int(ch) for ch in bin(abs(raw))[2:]] if raw != 0 else []
        return rec, ok
    rec["k"] = "other"
    rec["t"] = type(v).__name__
    return rec, True


def public_attrs(msg):
    """ordered public attribute list of a message (dict insertion order = decode order)"""
    return [(k, v) for k, v in msg.__dict__.items() if not k.startswith("_")]


_calls = [0]
# bytes and bytearray buffers everywhere; (writable) memoryview buffers only where a check asks for them
# (C04: "any buffer given to the static parser") - a message built over a memoryview has no evaluable repr,
# and C07 speaks of payloads, i.e. bytes
MEMORYVIEW_BUFFERS = False


def record_decode(rid, payload, labelmsm=1, via="ctor", fields=None, frame=None, validate=1, omit=None):
    """
    Run the real decoder and project the outcome.
    via: "ctor"   -> RTCMMessage(payload, labelmsm)
         "parse"  -> RTCMReader.parse(frame, validate, labelmsm)   (frame = any buffer)
         "reader" -> RTCMReader(BytesIO(frame_of(payload)), labelmsm=...).read()  (judged like ctor)
    Returns (record, message or None).
    """
    from pyrtcm import RTCMMessage, RTCMReader

    if fields is None:
        from pyrtcm.rtcmtypes_core import RTCM_DATA_FIELDS as fields  # noqa: N811
    rec = {
        "rid": rid,
        "p": list(payload or b""),
        "lab": lab_of(labelmsm),
        "out": "msg",
        "lib": True,
        "cls": "",
        "ident": "",
        "attrs": [],
        "scaled": True,
        "scalebad": "",
        "lbl": True,
        "via": "parse" if via == "parse" else "ctor",
        "frame": list(frame) if via == "parse" else [],
        "validate": int(validate),
        "ops": [],
        "sd": "",
    }
    msg = None
    try:
        # arguments equal to the documented defaults are OMITTED in every other call: a default must mean
        # the same whatever was parsed before, with whatever options
        _calls[0] += 1
        if omit is None:
            omit = _calls[0] % 2 == 0
        kw = {} if (omit and labelmsm == 1 and labelmsm is not True) else {"labelmsm": labelmsm}
        # the buffer comes as bytes, bytearray or a (writable) memoryview: all are "bytes" to a parser
        bt = _calls[0] % 5
        if bt == 4 and not MEMORYVIEW_BUFFERS:
            bt = 3
        def buf(b):
            return bytes(b) if bt < 3 else (bytearray(b) if bt == 3 else memoryview(bytearray(b)))
        # calling style: keywords, or POSITIONAL arguments in the documented order
        #   RTCMMessage(payload, labelmsm)   RTCMReader.parse(message, validate, labelmsm)
        positional = (_calls[0] // 2) % 3 == 1
        if via == "ctor":
            pl_ = buf(payload) if bt != 4 else bytes(payload)
            if positional:
                msg = RTCMMessage(pl_, labelmsm)
            else:
                msg = RTCMMessage(payload=pl_, **kw)
        elif via == "parse":
            rec["p"] = []
            if positional:
                msg = RTCMReader.parse(buf(frame), validate, labelmsm)
            else:
                if not (omit and validate == 1):
                    kw["validate"] = validate
                msg = RTCMReader.parse(buf(frame), **kw)
        else:
            import io

            # (the reader as entry point: validation on or off - the frame is valid either way - and
            #  constructor arguments by keyword or positionally in the documented order
            #  RTCMReader(datastream, validate, quitonerror, labelmsm))
            if positional:
                rdr = RTCMReader(io.BytesIO(frame_of(payload)), validate, 2, labelmsm)
            else:
                rdr = RTCMReader(io.BytesIO(frame_of(payload)), labelmsm=labelmsm, quitonerror=2, validate=validate)
            _raw, msg = rdr.read()
            if msg is None:
                raise RuntimeError("reader returned no message")
    except BaseException as err:  # pylint: disable=broad-except
        if isinstance(err, (KeyboardInterrupt, SystemExit, MemoryError, common.Watchdog)):
            raise
        rec["out"] = "raise"
        rec["cls"] = type(err).__name__
        rec["lib"] = isinstance(err, lib_classes())
        return rec, None
    try:
        rec["ident"] = str(msg.identity)
        for name, v in public_attrs(msg):
            a, ok = project_attr(name, v, fields)
            rec["attrs"].append(a)
            if not ok and rec["scaled"]:
                rec["scaled"] = False
                rec["scalebad"] = name
    except BaseException as err:  # pylint: disable=broad-except
        rec["out"] = "raise"
        rec["cls"] = "post:" + type(err).__name__
        rec["lib"] = False
    return rec, msg


def record_of_message(rid, payload, msg, labelmsm=1, fields=None):
    """
    Decode record built from a message object that the READER returned for the frame slice
    whose payload is `payload` (composition Framer o Decode): the judge decodes `payload`
    and compares with what the object shows.
    """
    if fields is None:
        from pyrtcm.rtcmtypes_core import RTCM_DATA_FIELDS as fields  # noqa: N811
    rec = {
        "rid": rid, "p": list(payload), "lab": lab_of(labelmsm), "out": "msg", "lib": True, "cls": "", "ident": "",
        "attrs": [], "scaled": True, "scalebad": "", "lbl": True, "via": "ctor", "frame": [], "validate": 1, "ops": [], "sd": "",
    }
    try:
        rec["ident"] = str(msg.identity)
        for name, v in public_attrs(msg):
            a, ok = project_attr(name, v, fields)
            rec["attrs"].append(a)
            if not ok and rec["scaled"]:
                rec["scaled"] = False
                rec["scalebad"] = name
    except BaseException as err:  # pylint: disable=broad-except
        rec["out"] = "raise"
        rec["cls"] = "post:" + type(err).__name__
        rec["lib"] = False
    return rec


def crc24q(data: bytes) -> int:
    """harness-side CRC (only used to BUILD frames; the judge recomputes in TLA+)"""
    crc = 0
    for b in data:
        crc ^= b << 16
        for _ in range(8):
            crc <<= 1
            if crc & 0x1000000:
                crc ^= 0x1864CFB
    return crc & 0xFFFFFF


def frame_of(payload) -> bytes:
    payload = bytes(payload)
    body = b"\xd3" + len(payload).to_bytes(2, "big") + payload
    return body + crc24q(body).to_bytes(3, "big")


# --------------------------------------------------------------------------
def write_tables(bundle, name="tables.json"):
    from pyrtcm.rtcmtypes_core import NA

    bundle = dict(bundle)
    bundle["na"] = NA if isinstance(NA, str) else "N/A"
    path = os.path.join(common.scratch(), name)
    with open(path, "w", encoding="utf-8") as f:
        json.dump(bundle, f)
    return path


JUDGE_CFG = """SPECIFICATION JSpec
CONSTANTS
  Fields <- JFields
  Defs <- JDefs
  TableOf <- JTable
INVARIANT NoOverrun
INVARIANT IdxDepth
INVARIANT CountsArePopcounts
INVARIANT CellOrder
INVARIANT CellsInRange
CHECK_DEADLOCK FALSE
"""


def judge(records, tables_path, shards=16, heap="512m", timeout=3000):
    """
    Judge decode records with TLC. Returns (verdicts {rid: (verdict, clause, detail, bits)}, [TlcResult]).
    Raises MachineryFailure if any record got no verdict or TLC failed.
    """
    if not records:
        return {}, []
    # balance shards by payload size
    def size(r):
        return max(len(r["p"]), len(r.get("frame") or []))

    order = sorted(records, key=lambda r: -size(r))
    nsh = max(1, min(shards, len(records)))
    buckets = [[] for _ in range(nsh)]
    loads = [0] * nsh
    for r in order:
        i = loads.index(min(loads))
        buckets[i].append(r)
        loads[i] += size(r) + 40
    jobs = []
    for i, b in enumerate(buckets):
        path = os.path.join(common.scratch(), f"recs-{os.getpid()}-{id(records) % 100000}-{i}.json")
        with open(path, "w", encoding="utf-8") as f:
            json.dump(b, f)
        jobs.append(
            dict(
                module="DecodeJudge",
                cfg=JUDGE_CFG,
                env={"VERIF_TABLES": tables_path, "VERIF_RECORDS": path},
                heap=heap,
                timeout=timeout,
            )
        )
    results = tlc.run_many(jobs)
    verdicts = {}
    learnt = {}
    conflicts = []
    for res in results:
        if res.invariant:
            raise MachineryFailure(f"DecodeJudge: invariant {res.invariant} violated\n" + "\n".join(res.out.splitlines()[-60:]))
        if not res.ok():
            raise MachineryFailure("DecodeJudge TLC failure: " + str(res.error) + "\n" + "\n".join(res.out.splitlines()[-40:]))
        for t in res.tuples("VERDICT"):
            verdicts[t[1]] = (t[2], t[3], t[4], t[5])
        # labels learnt per shard: merge, report cross-shard disagreement (C16 consistency)
        for m in re.finditer(r'<<\s*"(band|rinex)",\s*(\d+),\s*(\d+)\s*>>\s*:>\s*"([^"]*)"', res.out):
            key = (m.group(1), int(m.group(2)), int(m.group(3)))
            if key in learnt and learnt[key] != m.group(4):
                conflicts.append((key, learnt[key], m.group(4)))
            learnt.setdefault(key, m.group(4))
    judge.last_learnt = learnt
    judge.last_conflicts = conflicts
    missing = [r["rid"] for r in records if r["rid"] not in verdicts]
    if missing:
        raise MachineryFailure(f"DecodeJudge: {len(missing)} records without verdict, e.g. {missing[:5]}")
    return verdicts, results


_DEFINED = None


def is_stub(msg):
    """
    A stub is a message whose identity has NO payload definition in the library's tables
    (the specification's definition of Stub) - decided from the tables, not from the
    message's string form, which no listed property fixes.
    """
    global _DEFINED
    if _DEFINED is None:
        from .export_tables import load_repo_tables

        t = load_repo_tables()
        _DEFINED = {str(k) for tn in ("get", "msm", "igs") for k in t[tn]}
    return str(msg.identity) not in _DEFINED
