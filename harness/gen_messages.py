"""
Untrusted structure-aware message generator (DESIGN 2.1: generators can only
reduce coverage, never cause or hide an alarm - the judge decodes whatever
bytes come out).

An Encoder walks the exported AST of a definition in definition order and
lays out field values chosen by a profile.
"""

from .common import rng

COUNTER_SPECIAL = {"IDF035": 1}  # 4076_201: layers = IDF035 + 1


def counters_of(ast, acc=None):
    acc = set() if acc is None else acc
    for node in ast:
        if node["k"] == "grp":
            if node["ct"] == "attr":
                acc.add(node["ca"])
            counters_of(node["body"], acc)
        elif node["k"] == "opt":
            acc.add(node["ca"])
            counters_of(node["body"], acc)
    return acc


class TooLong(Exception):
    pass


class Encoder:
    def __init__(self, ident, bundle, rnd, values="random", count="typ", mask="random", overrides=None, maxbits=8184):
        self.ident = ident
        self.ast = bundle["defs"][ident]
        self.fields = bundle["fields"]
        self.rnd = rnd
        self.values = values
        self.count = count
        self.mask = mask
        self.ov = overrides or {}
        self.maxbits = maxbits
        self.counters = counters_of(self.ast)
        self.bits = []  # list of (value, width)
        self.nbits = 0
        self.ints = {}
        self.layout = []  # (name, idx tuple, offset, width)
        self.mid = int(ident.split("_")[0])
        self.sub = int(ident.split("_")[1]) if "_" in ident else None

    # ---- value choice ----------------------------------------------------
    def _pick_count(self, name, w):
        hi = (1 << w) - 1
        c = self.count
        if isinstance(c, dict):
            c = c.get(name, c.get("*", "typ"))
        if isinstance(c, int):
            return min(c, hi)
        if c == "zero":
            return 0
        if c == "one":
            return min(1, hi)
        if c == "max":
            return hi
        if c == "typ":
            return self.rnd.randint(0, min(hi, 4))
        return self.rnd.randint(0, hi)

    def _pick_value(self, name, w):
        if w == 0:
            return 0
        v = self.values
        if isinstance(v, dict):
            v = v.get(name, v.get("*", "random"))
        if isinstance(v, int):
            return v & ((1 << w) - 1)
        if v == "zero":
            return 0
        if v == "ones":
            return (1 << w) - 1
        if v == "signbit":
            return 1 << (w - 1)
        if v == "mix":
            v = self.rnd.choice(["zero", "ones", "signbit", "random", "random", "small"])
            return self._pick_value_mode(v, w)
        return self._pick_value_mode(v, w)

    def _pick_value_mode(self, mode, w):
        if mode == "zero":
            return 0
        if mode == "ones":
            return (1 << w) - 1
        if mode == "signbit":
            return 1 << (w - 1)
        if mode == "small":
            return self.rnd.randint(0, min(3, (1 << w) - 1))
        return self.rnd.getrandbits(w)

    def _pick_mask(self, name, w):
        m = self.mask
        if isinstance(m, dict):
            m = m.get(name, m.get("*", "random"))
        if isinstance(m, int):
            return m & ((1 << w) - 1) if w else 0
        if w == 0:
            return 0
        if m == "empty":
            return 0
        if m == "first":
            return 1 << (w - 1)
        if m == "last":
            return 1
        if m == "full":
            return (1 << w) - 1
        if m == "single":
            return 1 << self.rnd.randrange(w)
        if m == "sparse":
            v = 0
            for _ in range(self.rnd.randint(1, 4)):
                v |= 1 << self.rnd.randrange(w)
            return v
        if m == "dense":
            return self.rnd.getrandbits(w) | self.rnd.getrandbits(w)
        # random with moderate density
        v = 0
        k = self.rnd.randint(0, min(w, 8))
        for _ in range(k):
            v |= 1 << self.rnd.randrange(w)
        return v

    # ---- walk ------------------------------------------------------------
    def put(self, name, idx, val, w):
        if self.nbits + w > self.maxbits:
            raise TooLong()
        self.layout.append((name, tuple(idx), self.nbits, w))
        self.bits.append((val, w))
        self.nbits += w

    def field(self, name, idx):
        f = self.fields.get(name)
        if f is None or f["t"] in ("PRN", "CPR", "CSG", "BAD"):
            return
        w = f["w"]
        full = name + "".join(f"_{i:02d}" for i in idx)
        if name == "DF396":
            w = self.ints.get("NSat", 0) * self.ints.get("NSig", 0)
        if full in self.ov:
            val = self.ov[full] & ((1 << w) - 1) if w else 0
        elif name in self.ov and not idx:
            val = self.ov[name] & ((1 << w) - 1) if w else 0
        elif name == "DF002" and not idx:
            val = self.mid
        elif name == "IDF002" and not idx and self.sub is not None:
            val = self.sub
        elif name in ("DF394", "DF395", "DF396"):
            val = self._pick_mask(name, w)
        elif name in self.counters:
            val = self._pick_count(name, w)
        else:
            val = self._pick_value(name, w)
        self.put(name, idx, val, w)
        if name in ("DF394", "DF395", "DF396"):
            self.ints[{"DF394": "NSat", "DF395": "NSig", "DF396": "NCell"}[name]] = bin(val).count("1")
        if f["t"] not in ("INT", "SNT", "CHA", "STR") and w <= 24:
            self.ints[full] = val
        if name == "IDF038" and idx:
            i = idx[0]
            n = self.ints.get(f"IDF037_{i:02d}", 0) + 1
            m = val + 1
            nc = ((n + 1) * (n + 2)) // 2 - ((n - m) * (n - m + 1)) // 2
            self.ints["_NHarmCoeffC"] = nc
            self.ints["_NHarmCoeffS"] = nc - (n + 1)

    def walk(self, ast, idx):
        for node in ast:
            k = node["k"]
            if k == "fld":
                self.field(node["n"], idx)
            elif k == "grp":
                if node["ct"] == "fixed":
                    cnt = node["cn"]
                else:
                    cname = node["ca"] + "".join(f"_{i:02d}" for i in idx[: node["nest"]])
                    cnt = self.ints.get(cname, 0) + COUNTER_SPECIAL.get(cname, 0)
                for i in range(1, cnt + 1):
                    self.walk(node["body"], idx + [i])
            elif k == "opt":
                if self.ints.get(node["ca"]) == node["cv"]:
                    self.walk(node["body"], idx)

    def encode(self, tail_bits=None):
        self.walk(self.ast, [])
        v = 0
        for val, w in self.bits:
            v = (v << w) | val
        n = self.nbits
        pad = (-n) % 8
        if tail_bits is None:
            tail = 0
        else:
            tail = tail_bits & ((1 << pad) - 1) if pad else 0
        v = (v << pad) | tail
        return v.to_bytes((n + pad) // 8, "big")


def build(ident, bundle, rnd, **kw):
    """
    Build one payload for `ident`; shrinks counts until it fits in 1023 bytes.
    Returns (payload bytes, encoder) or (None, None).
    """
    count = kw.pop("count", "typ")
    for attempt in range(12):
        enc = Encoder(ident, bundle, rnd, count=count, **kw)
        try:
            pl = enc.encode(tail_bits=rnd.getrandbits(8) if kw.get("values") != "zero" else 0)
            if len(pl) <= 1023:
                return pl, enc
        except TooLong:
            pass
        # shrink
        if count == "max":
            count = "random"
        elif count == "random":
            count = "typ"
        elif isinstance(count, int):
            count = max(0, count // 2)
        elif isinstance(count, dict):
            count = {k: (max(0, v // 2) if isinstance(v, int) else "typ") for k, v in count.items()}
        else:
            count = "one" if attempt > 6 else "typ"
        if kw.get("mask") in ("full", "dense"):
            kw["mask"] = "sparse"
    return None, None


def corpus(bundle, tag, per_ident=2, idents=None, profiles=None):
    """
    A deterministic (VERIF_SEED) corpus: list of (ident, profile name, payload, encoder).
    """
    rnd = rng("corpus:" + tag)
    idents = idents or sorted(bundle["defs"])
    profiles = profiles or DEFAULT_PROFILES
    out = []
    for ident in idents:
        names = list(profiles)
        rnd.shuffle(names)
        # always include the first profile ("random") and then rotate
        chosen = ["random"] + [n for n in names if n != "random"]
        for pn in chosen[:per_ident]:
            pl, enc = build(ident, bundle, rnd, **dict(profiles[pn]))
            if pl is not None:
                out.append((ident, pn, pl, enc))
    return out


DEFAULT_PROFILES = {
    "random": dict(values="random", count="typ", mask="random"),
    "zeros": dict(values="zero", count="one", mask="first"),
    "ones": dict(values="ones", count="typ", mask="sparse"),
    "signbit": dict(values="signbit", count="typ", mask="last"),
    "mix": dict(values="mix", count="random", mask="sparse"),
    "maxcount": dict(values="random", count="max", mask="dense"),
    "nocount": dict(values="random", count="zero", mask="empty"),
}
