"""Generates MANIFEST.json from the table below (python -m harness.manifest_gen)."""

import json
import os

from .common import VERIF

ALL = [f"C{i:02d}" for i in range(1, 20)]

DEC_NOTE = "Trusted: TLC 1.8, the TLA+ modules (Decode/Bits/Message/StdMsm/Crc24q), the syntactic table exporter and the value projection (harness/decode_rec.py); float scaling re-computed outside TLC by the identical IEEE operation. Exhaustive only within the stated small scopes; larger inputs are sampled (profiles, seeds)."
FRM_NOTE = "Trusted: TLC 1.8, Framer.tla/Crc24q.tla, the recording proxy between reader and stream and the scripted stream/socket doubles. Streams are assumed to answer at most the requested size. Exhaustive within the MC alphabet/budget; long real streams are sampled. Two-level binding: a trace rejected by FramerTrace for its read pattern alone is judged by FramerOut.tla (observables only; DESIGN 9.8)."


def c(engine, technique, text, ref, note=None):
    return dict(engine=engine, technique=technique, text=text, ref=ref, note=note or (DEC_NOTE if engine in ("decode", "message") else FRM_NOTE))


CHECKS = {
    "C01": c("framer", "TLA+ spec of the frame-sync state machine (Framer.tla): TLC exhaustive over streams x fault placements; replay of TLC's full state graph into the real reader; TLC-judged traces (FramerTrace.tla exact binding, FramerOut.tla output-level binding, SliceJudge.tla on every trace)",
             "TLC explores every stream over an 11-symbol alphabet with adaptive CRC and every short/empty-read placement; every edge of that state graph is replayed on the real RTCMReader; recorded executions over adversarial streams, fault schedules and the repository's logs are validated step by step (request sizes, follow-ups, CRC-24Q recomputed in TLA+), and each delivered object is judged against the payload of its own slice; SliceJudge.tla decides for every trace that the delivered frames are well-formed, contiguous, ordered slices of the input; spliced streams, one frame per 12-bit message number.", "3.1, 4/C01"),
    "C02": c("framer", "TLC on Framer.tla with a well-formed item environment (NoLoss/DebtSettled) + TLC-judged traces over file, buffered and socket streams",
             "TLC checks that every item's debt is settled exactly once for all item sequences (incl. zero-length and unknown-type frames); real executions over generated item sequences on three stream kinds conform step by step and deliver exactly the emitted frames.", "3.1, 4/C02"),
    "C03": c("decode", "TLA+ spec of the definition interpreter (Decode.tla): TLC exhaustive on mini-definitions + TLC-judged traces of the real decoder for every identity",
             "TLC model-checks the interpreter specification on every payload of 16 mini-definitions covering all constructs; the same scope and a structure-aware corpus over all ~150 real identities are decoded by the real RTCMMessage and every attribute (name, order, type, raw value) is judged by the specification in TLC.", "3.4, 4/C03"),
    "C04": c("decode", "TLC liveness/deadlock on Decode.tla and Framer.tla + TLC-judged constructor/static-parser inputs and reader executions (foreign exception = rejection)",
             "TLC shows termination and library-only errors of both specifications; all 4096 numbers x short lengths, structure-aware mutations and arbitrary buffers are judged by DecodeJudge.tla (the spec gives the allowed outcome set), stream iterations in the three error modes are validated by FramerTrace.tla with a watchdog for hangs.", "3.1, 3.4, 4/C04"),
    "C05": c("framer", "TLC on Framer.tla with a damaging item environment + TLC-judged traces in the three error modes",
             "TLC checks DebtSettled/RaiseThenResume for every damaged subset of small item sequences and all option combinations; real executions over streams with guaranteed-detectable damage conform step by step (CRC recomputed in TLA+) and report exactly once per damaged frame.", "3.1, 4/C05"),
    "C06": c("decode", "TLC NoOverrun on Decode.tla (mini-definitions, all payloads) + every whole-byte truncation of complete real messages judged by the spec",
             "The specification fails on the first field that crosses the end of the payload and never writes an attribute before that test; every truncation of complete messages of every identity is decoded by the real code and judged (rejected iff the spec rejects; accepted decodes compared attribute by attribute).", "3.4, 4/C06"),
    "C07": c("message", "TLC on the framing operators (MC_Frame) + TLC-judged histories construct/serialize/parse/repr",
             "Frame() is model-checked on all small payloads and the critical lengths; histories on real messages are judged with the frame rebuilt in TLA+ (CRC-24Q from Crc24q.tla) and the re-parsed snapshot compared with the spec's decode.", "3.5, 4/C07"),
    "C08": c("crc", "TLC on the CRC-24Q algebra (MC_Crc: zero remainder, linearity, LFSR period > frame length, generator shape) + TLC-judged calc_crc24q/crc2bytes + damaged frames through the static parser",
             "The pinned CRC-24Q is model-checked (all message pairs over 4 symbols, x^d mod g for every d up to the longest frame, even weight, degree 24); the real helpers are judged by TLC on all length classes and against the LFSR table for EVERY single-bit message of maximal length; every 1-bit, sampled/all 2-bit, odd-weight and burst<=24 damage of valid frames must be rejected by the static parser.", "3.3, 4/C08",
             "Trusted: TLC 1.8, Crc24q.tla (pinned from the standard), CommunityModules Bitwise. The burst and odd-weight detection arguments are stated in MC_Crc.tla; TLC checks their premises (degree, constant term, weight) and the period bound."),
    "C09": c("decode", "TLC equivalence of declarative and loop-shaped MSM mapping (MC_MsmMaps) + TLC-judged MSM decodes against the pinned StdMsm tables",
             "All masks up to 5x3 are enumerated for the mapping lemma; every MSM identity x mask shapes (each satellite/signal position, empty, dense) x both label options is decoded by the real code and judged against RTCM 10403.3 numbering/RINEX codes.", "3.4, 4/C09"),
    "C10": c("layout", "TLC evaluates layout predicates over the AST of every exported definition against the pinned StdLayout.tla + exact-size acceptance on the real decoder",
             "WellFormed, FieldsDefined, CountersPrecede, BitsMatchStd (box of count vectors), SiblingsAgree and DispatchTotal are TLC invariants with one state per identity; for every identity a message of exactly the pinned length is accepted by the real code and one byte less is rejected.", "3.6, 4/C10",
             "Trusted: TLC 1.8, StdLayout.tla (lengths written from RTCM 10403.3 / IGS SSR v1.00; 1022, 1024 and 1300-1305 are marked prov=tree = regression oracle only), the syntactic exporter. A same-width transposition inside a type without siblings is invisible to this property as worded."),
    "C11": c("socket", "TLA+ spec of the socket buffer (SockBuf.tla): TLC over all sources x all partitions x bufsizes x call sequences x failures + TLC-judged traces of the real SocketWrapper + composition reader-over-wrapper (SockFramer.tla) model-checked and its TLC-simulated behaviours replayed on the real code",
             "PrefixOK/SizeOK/TimeoutKeepsData are checked exhaustively for small sources; recorded executions over a scripted socket.socket subclass are validated event by event (every recv, return value and public buffer), segmentation independence and socket-vs-file equality are compared on the real code.", "3.2, 4/C11",
             "Trusted: TLC 1.8, SockBuf.tla, the scripted socket double. recv() is assumed to return at most bufsize bytes. Two-level binding: a trace that does not fit the specification's receive pattern is judged by the envelope action of SockTrace.tla (DESIGN 9.8)."),
    "C12": c("socket", "TLC equivalence of the code-shaped chunk decoder and the RFC 9112 grammar decoder over all partitions (MC_Sock chunked) + envelope trace validation of the real wrapper for every cut position",
             "All well-formed bodies from a chunk pool x all partitions x bufsizes; on the real code every single and double cut of small bodies and random partitions of large bodies under chunked, gzip, compress and deflate: delivered ++ buffer is always a prefix of the decoded stream and contains every complete chunk.", "3.2, 4/C12",
             "Trusted: TLC 1.8, Dechunk.tla (Ref written from RFC 9112), Python zlib for the inflate dictionary. Only well-formed bodies without chunk extensions are in scope."),
    "C13": c("parallel", "TLC over all work-list pairs and interleavings of two Decode instances (Parallel.tla: TablesConst, HistoryFree) + TLC-generated schedules driving a deterministic thread scheduler on the real code; every result judged history-free by DecodeJudge",
             "Histories of up to 3 operations over 9 payload classes, three entry points and option values run in one process with table digests after every operation; 2-4 threads follow TLC-generated schedules at function-call and source-line granularity; systematic one-preemption schedules at line and bytecode-instruction granularity; a fresh reader per message over shared streams; free-running stress at 1 us switch interval; every single result is judged by the specification, which knows no history.", "3.7, 4/C13",
             "Trusted: TLC 1.8, Decode.tla, threading.settrace / sys.monitoring as yield-point mechanisms (call, line and bytecode-instruction granularity; systematic one-preemption schedules). Multi-preemption schedules below call granularity are sampled."),
    "C14": c("message", "TLC action property Frozen on Lifecycle.tla + TLC-judged assignment histories with full snapshots",
             "The life-cycle spec is model-checked for every name and operation order; on real messages every attempted assignment (public, private, fresh names and every name the library's own code mentions; after a failed serialize; while other threads construct) must raise RTCMMessageError and the post-snapshot must equal the state the spec derives from the payload.", "3.5, 4/C14"),
    "C15": c("message", "TLC exhaustive over 4096 numbers x 256 sub-types (MC_Identity) + exhaustive header sweep on the real code judged by TLC",
             "Identity, table dispatch, stub behaviour and the MSM block are finite: TLC enumerates them against the exported tables and every header is constructed on the real code and judged (identity text, stub keeps payload and serialises back, ismsm).", "3.5, 4/C15"),
    "C16": c("decode", "label-independence is structural in Decode.tla; TLC-judged decodes under option values 0/1/2/True through constructor, static parser and reader",
             "The spec's attribute list does not depend on the option, only the rendering of signal labels does; the real code is judged in each mode, band labels must be globally consistent, and the objects are compared across options.", "3.4, 4/C16"),
    "C17": c("framer", "request sizes are option-free in Framer.tla; TLC over all 12 option combinations + TLC-judged traces of one stream under every combination with cross-run clauses",
             "TLC explores all option combinations; the same stream (with large, edge-of-mask, undecodable and payload-altered frames placed deterministically) is run under every combination, each run validated by FramerTrace.tla, request sequences compared across runs, wrong-CRC frames under validate=0 judged by DecodeJudge against their own payload, readers with different options alive at the same time.", "3.1, 4/C17"),
    "C18": c("message", "helper output derived in TLA+ from the spec's attribute list (Message.tla) and compared by TLC with the projected output of parse_msm / parse_4076_201",
             "All 49 MSM types x mask shapes, 4076_201 with 1-4 layers and degree/order up to 16 (153 coefficients), every other identity, every reserved MSM number and unknown numbers.", "3.5, 4/C18"),
    "C19": c("message", "TLC injectivity of name rendering over the exported field table (MC_Names) + TLC-judged datadesc/att2idx/att2name on every attribute name of real messages",
             "Every attribute of the spec carries its base field and indices; the helpers are called on every generated name (plain, _NN, _NN_NN, _NNN, DF/IDF, PRN, CELLPRN, CELLSIG, ExtSatInfo, DF001_n, DF422_n) and judged.", "3.5, 4/C19"),
}

ENGINES = [
    dict(name="decode", path="spec/Decode.tla spec/DecodeJudge.tla spec/MC_DecodeMini.tla spec/MsmMaps.tla spec/StdMsm.tla harness/decode_engine.py",
         kind_free_text="TLA+ small-step spec of the payload-definition interpreter; TLC model checking on mini-definitions; TLC as judge of recorded decodes of the real code"),
    dict(name="message", path="spec/Message.tla spec/Lifecycle.tla spec/MC_Frame.tla spec/MC_Identity.tla spec/MC_Names.tla harness/message_rec.py",
         kind_free_text="TLA+ operators for framing, identity, immutability and derived views over the decode state; TLC-judged operation histories on real message objects"),
    dict(name="crc", path="spec/Crc24q.tla spec/MC_Crc.tla spec/CrcJudge.tla harness/props/c08.py",
         kind_free_text="pinned CRC-24Q in TLA+ (bit-serial + table form), TLC-checked algebra, TLC as judge of the real checksum helpers"),
    dict(name="layout", path="spec/Layout.tla spec/StdLayout.tla harness/props/c10.py",
         kind_free_text="TLC evaluates layout predicates over the exported definition ASTs against pinned standard length formulas and sibling relations"),
    dict(name="socket", path="spec/SockBuf.tla spec/Dechunk.tla spec/MC_Sock.tla spec/SockTrace.tla spec/SockFramer.tla harness/sockframer.py harness/sock_engine.py harness/sock_rec.py harness/sockdouble.py",
         kind_free_text="TLA+ spec of the socket buffer and chunk decoder; TLC over all segmentations; TLC trace validation of the real SocketWrapper over a scripted socket"),
    dict(name="parallel", path="spec/Parallel.tla harness/parallel_run.py harness/props/c13.py",
         kind_free_text="two Decode instances with work lists and shared tables; TLC over all interleavings; TLC-generated schedules for a deterministic thread scheduler on the real code"),
    dict(name="framer", path="spec/Framer.tla spec/MC_Framer.tla spec/FramerTrace.tla spec/FramerOut.tla spec/SliceJudge.tla harness/framer_engine.py harness/framer_replay.py",
         kind_free_text="TLA+ spec of RTCMReader.read as a state machine driven by a faulty stream; TLC model checking, replay of the state graph into the real reader, TLC trace validation"),
]

NOT_YET = "check not built yet in this round (planned, see DESIGN.md section 4); no claim is made"


def main():
    checks = []
    for pid in ALL:
        if pid not in CHECKS:
            continue
        c = CHECKS[pid]
        checks.append(
            {
                "property_id": pid,
                "quick_cmd": f"./check {pid} --tier quick",
                "thorough_cmd": f"./check {pid} --tier thorough",
                "evidence_file": f"evidence/{pid}.json",
                "replay_cmd_template": f"./check {pid} --replay {{path}}",
                "engine": c["engine"],
                "level_claimed": {"category": "model_checking", "text": c["text"], "design_ref": c["ref"]},
                "level_note": c["note"],
                "technique": c["technique"],
            }
        )
    for e in ENGINES:
        e["serves_properties"] = [p for p in ALL if p in CHECKS and CHECKS[p]["engine"] == e["name"]]
    man = {
        "version": 1,
        "setup_cmd": "./setup.sh",
        "hooks": {
            "guard": "PYRTCM_VERIF",
            "enable": "no source hooks are needed: checks observe public API behaviour through stream/socket doubles; PYRTCM_VERIF=1 is exported by ./check for forward compatibility",
            "baseline_off_cmd": "cd /repo && env -u PYRTCM_VERIF /venv/bin/python -m pytest -ra -q -p no:cacheprovider --timeout=900 --continue-on-collection-errors",
            "source_commits": [],
            "add_only": True,
        },
        "engines": ENGINES,
        "checks": checks,
        "notes": "All checks: ./check <id> [--tier quick|thorough] [--replay FILE]; exit 0 held, 1 VIOLATION, 2 machinery failure. Genuine defects repaired by fix: commits are listed in known_findings.json (fixed entries suppress nothing).",
        "not_applicable": [{"property_id": p, "reason": NOT_YET} for p in ALL if p not in CHECKS],
    }
    with open(os.path.join(VERIF, "MANIFEST.json"), "w", encoding="utf-8") as f:
        json.dump(man, f, indent=1)
    print("MANIFEST.json:", len(checks), "checks,", len(man["not_applicable"]), "not yet claimed")


if __name__ == "__main__":
    main()
