"""Generates MANIFEST.json from the table below (python -m harness.manifest_gen)."""

import json
import os

from .common import VERIF

ALL = [f"C{i:02d}" for i in range(1, 20)]

CHECKS = {
    "C03": dict(
        engine="decode",
        technique="TLA+ spec of the definition interpreter (Decode.tla): TLC exhaustive on mini-definitions + TLC-judged traces of the real decoder for every identity",
        text="TLC model-checks the interpreter specification on every payload of 16 mini-definitions covering all constructs; the same scope and a structure-aware corpus over all ~150 real identities are decoded by the real RTCMMessage and every attribute (name, order, type, raw value) is judged by the specification in TLC (DecodeJudge.tla).",
        note="Trusted: TLC, Decode.tla/Bits.tla, the syntactic table exporter, the value projection; float scaling re-computed outside TLC with the identical IEEE operation. Exhaustive only for the mini scope; real identities are sampled by profiles (extremes, max counts, masks).",
        ref="3.4, 4/C03",
    ),
}

ENGINES = [
    dict(name="decode", path="spec/Decode.tla spec/DecodeJudge.tla spec/MC_DecodeMini.tla harness/decode_engine.py",
         serves_properties=["C03"], kind_free_text="TLA+ small-step spec of the payload-definition interpreter; TLC model checking on mini-definitions; TLC as judge of recorded decodes of the real code"),
]

NOT_YET = "check not built yet in this round (planned, see DESIGN.md section 4); no claim is made"


def main():
    checks = []
    for pid in ALL:
        if pid not in CHECKS:
            continue
        c = CHECKS[pid]
        checks.append(
            {
                "property_id": pid,
                "quick_cmd": f"./check {pid} --tier quick",
                "thorough_cmd": f"./check {pid} --tier thorough",
                "evidence_file": f"evidence/{pid}.json",
                "replay_cmd_template": f"./check {pid} --replay {{path}}",
                "engine": c["engine"],
                "level_claimed": {"category": "model_checking", "text": c["text"], "design_ref": c["ref"]},
                "level_note": c["note"],
                "technique": c["technique"],
            }
        )
    for e in ENGINES:
        e["serves_properties"] = [p for p in ALL if p in CHECKS and CHECKS[p]["engine"] == e["name"]]
    man = {
        "version": 1,
        "setup_cmd": "./setup.sh",
        "hooks": {
            "guard": "PYRTCM_VERIF",
            "enable": "no source hooks are needed: checks observe public API behaviour through stream/socket doubles; PYRTCM_VERIF=1 is exported by ./check for forward compatibility",
            "baseline_off_cmd": "cd /repo && env -u PYRTCM_VERIF /venv/bin/python -m pytest -ra -q -p no:cacheprovider --timeout=900 --continue-on-collection-errors",
            "source_commits": [],
            "add_only": True,
        },
        "engines": ENGINES,
        "checks": checks,
        "notes": "All checks: ./check <id> [--tier quick|thorough] [--replay FILE]; exit 0 held, 1 VIOLATION, 2 machinery failure. Genuine defects repaired by fix: commits are listed in known_findings.json (fixed entries suppress nothing).",
        "not_applicable": [{"property_id": p, "reason": NOT_YET} for p in ALL if p not in CHECKS],
    }
    with open(os.path.join(VERIF, "MANIFEST.json"), "w", encoding="utf-8") as f:
        json.dump(man, f, indent=1)
    print("MANIFEST.json:", len(checks), "checks,", len(man["not_applicable"]), "not yet claimed")


if __name__ == "__main__":
    main()
