"""
SockFramer.tla - the composition RTCMReader over SocketWrapper (last sentence of C11).

 (A) TLC, exhaustive: every source of up to MaxItems items x every partition into receives
     (bufsize <= BufSize) x timeouts at item boundaries x option combinations: the reader
     over the wrapper delivers what the reader over a file delivers (SameMessages,
     SameReports, Drained), SockBuf's invariants hold inside the composition, the run ends.
 (B) spec -> code: TLC's simulation of the same module emits finished behaviours
     (bytes on the wire, receive script, options, outputs); every one is executed on the REAL
     RTCMReader over the REAL SocketWrapper over a socket double that answers recv()
     exactly as on the behaviour (timeouts tied to the byte position at which the
     specification placed them), and the observable outputs - returned frames, handler
     calls, raises, in order - are compared with the behaviour's.
"""

import socket

from . import common, decode_rec, tlc
from .common import MachineryFailure, digest

CFG = """SPECIFICATION Spec
CONSTANTS BufSize = %(bufsize)d
 MaxItems = %(items)d
 MaxFail = %(fails)d
 DefinedMids = {%(mids)s}
 ChunkMode = %(chunked)s
 AllCuts = %(allcuts)s
 Record = %(record)s
INVARIANT SameMessages
INVARIANT SameReports
INVARIANT Drained
INVARIANT DeliveredIsSource
INVARIANT SockPrefixOK
INVARIANT SockSizeOK
%(extra)s
CHECK_DEADLOCK FALSE
"""


def mc(rep, items, bufsize, fails, mids, workers=8, heap="3g", chunked=False, allcuts=False):
    cfg = CFG % dict(bufsize=bufsize, items=items, fails=fails, mids=", ".join(map(str, mids)), record="FALSE", extra="PROPERTY Ends",
                     chunked="TRUE" if chunked else "FALSE", allcuts="TRUE" if allcuts else "FALSE")
    res = tlc.run("SockFramer", cfg, workers=workers, heap=heap, coverage=True, timeout=3000)
    tlc.must_ok(res, f"SockFramer items={items} bufsize={bufsize}")
    cov = res.action_coverage()
    need = ["FileStep", "NetRecv", "NetClose", "BoundaryFail", "WrapperInternal", "ClientCall", "Issue", "Answered", "Finish"]
    dead = [a for a in need if cov.get(a, (0, 0))[1] == 0]
    if dead:
        raise MachineryFailure(f"SockFramer: actions never taken: {dead}")
    rep.add_tlc(res)
    rep.notes.setdefault("mc_sockframer", []).append({"items": items, "bufsize": bufsize, "fails": fails, "chunked": chunked, "states": res.distinct,
                                                      "coverage": {a: cov[a][1] for a in need}})
    return res


class PositionSocket(socket.socket):
    """recv() hands over the behaviour's segments in order; a timeout fires (once) when recv is
    called with the stream at the byte position where the behaviour had it"""

    def __init__(self, data, script):
        super().__init__(socket.AF_INET, socket.SOCK_STREAM)
        self.data = bytes(data)
        self.pos = 0
        self.segs = []
        self.failpos = {}
        p = 0
        for e in script:
            if e > 0:
                self.segs.append(e)
                p += e
            elif e == -1:
                self.failpos[p] = self.failpos.get(p, 0) + 1
        self.si = 0
        self.recvs = 0

    def recv(self, bufsize, flags=0):  # pylint: disable=arguments-differ
        self.recvs += 1
        if self.failpos.get(self.pos, 0) > 0:
            self.failpos[self.pos] -= 1
            # "a timeout or OS error": every class of failed receive is the same event for the wrapper
            kinds = [TimeoutError("scripted timeout"), OSError("scripted os error"), InterruptedError(4, "interrupted"),
                     ConnectionResetError(104, "reset"), OSError(113, "no route to host")]
            raise kinds[(self.pos + len(self.data) + self.recvs) % len(kinds)]
        if self.si >= len(self.segs):
            return b""
        n = min(self.segs[self.si], bufsize)
        self.si += 1
        out = self.data[self.pos: self.pos + n]
        self.pos += len(out)
        return out

    @property
    def finished(self):
        return self.pos >= len(self.data) and not any(self.failpos.values())


def run_real(src, script, opts, bufsize, chunked=False):
    """-> list of (ev, cls, raw bytes) observed on the real reader over the real wrapper"""
    from pyrtcm import RTCMReader

    validate, parsed, quit_ = opts
    outs = []
    libs = decode_rec.lib_classes()

    def on_err(err):
        outs.append(("handler", type(err).__name__ if isinstance(err, libs) else "FOREIGN:" + type(err).__name__, b""))

    sock = PositionSocket(src, script)
    try:
        with common.watchdog(60):
            rdr = RTCMReader(sock, validate=validate, parsed=parsed, quitonerror=quit_, errorhandler=on_err, bufsize=bufsize,
                             encoding=1 if chunked else 0)
            for _ in range(len(src) + len(script) + 10):
                try:
                    raw, msg = rdr.read()
                except BaseException as err:  # pylint: disable=broad-except
                    if isinstance(err, (KeyboardInterrupt, SystemExit, MemoryError, common.Watchdog)):
                        raise
                    outs.append(("raise", type(err).__name__ if isinstance(err, libs) else "FOREIGN:" + type(err).__name__, b""))
                    continue
                if raw is None and msg is None:
                    if sock.finished:
                        break
                    continue
                outs.append(("ret", "", bytes(raw)))
    except common.Watchdog:
        outs.append(("hang", "Watchdog", b""))
    finally:
        sock.close()
    return outs


DEC = {"RTCMTypeError", "RTCMMessageError"}


def same(exp, got):
    if len(exp) != len(got):
        return False
    for (e1, c1, r1), (e2, c2, r2) in zip(exp, got):
        if e1 != e2 or bytes(r1) != bytes(r2):
            return False
        if c1 != c2 and not (c1 in DEC and c2 in DEC):
            return False
    return True


def replay(rep, num, items, bufsize, fails, mids, depth=600, chunked=False):
    cfg = CFG % dict(bufsize=bufsize, items=items, fails=fails, mids=", ".join(map(str, mids)), record="TRUE", extra="INVARIANT RunOut",
                     chunked="TRUE" if chunked else "FALSE", allcuts="TRUE")
    res = tlc.run("SockFramer", cfg, workers=1, heap="1g", extra=["-simulate", f"num={num}", "-depth", str(depth), "-seed", str(11 + common.seed())],
                  timeout=1500)
    if res.invariant or res.error:
        raise MachineryFailure("SockFramer simulation failed: " + str(res.invariant or res.error) + res.out[-800:])
    rep.add_tlc(res)
    runs = []
    seen = set()
    for t in res.tuples("SFRUN"):
        key = digest([t[1], t[2], t[3]])
        if key not in seen:
            seen.add(key)
            runs.append(t)
    if len(runs) < max(5, num // 20):
        raise MachineryFailure(f"SockFramer simulation produced only {len(runs)} finished behaviours of {num}")
    nfail = nmulti = 0
    for _, src, script, opts, outs in runs:
        src = bytes(src)
        exp = [(o[0], o[1], bytes(o[2])) for o in outs]
        got = run_real(src, list(script), (int(opts[0]), bool(opts[1]), int(opts[2])), bufsize, chunked)
        nfail += any(e == -1 for e in script)
        nmulti += len([e for e in script if e > 0]) > 2
        rep.case(digest([src.hex(), list(script), list(opts)]), nontrivial=len(exp) > 0 and len(script) > 2)
        if not same(exp, got):
            rep.reject("CompositionReplay", {"engine": "sockframer", "quit": int(opts[2]), "parsed": bool(opts[1])},
                       {"engine": "sockframer", "stream_hex": src.hex(), "recv_script": list(script), "bufsize": bufsize, "chunked": chunked,
                        "options": {"validate": int(opts[0]), "parsed": bool(opts[1]), "quitonerror": int(opts[2])},
                        "expected": [(e, c, r.hex()) for e, c, r in exp], "observed": [(e, c, r.hex()) for e, c, r in got]})
    rep.count("traces_validated_against_impl", len(runs))
    rep.notes.setdefault("sockframer_replay", []).append({"chunked": chunked, "bufsize": bufsize, "behaviours": len(runs), "with_boundary_timeout": nfail, "with_3_or_more_receives": nmulti})
    return len(runs)
