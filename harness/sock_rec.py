"""Recording executions of the real SocketWrapper for SockTrace.tla, and judging them."""

import json
import os
import zlib

from . import common, sockdouble, tlc
from .common import MachineryFailure


def ev0(e, **kw):
    x = {"e": e, "op": "", "n": 0, "kind": "", "bufsize": 0, "data": [], "buffer": []}
    x.update(kw)
    return x


class LoggingSocket(sockdouble.ScriptedSocket):
    """ScriptedSocket that appends its recv events to a shared event list"""

    def __init__(self, data, script, events):
        super().__init__(data, script)
        self._events = events

    def recv(self, bufsize, flags=0):
        try:
            out = super().recv(bufsize, flags)
        except (TimeoutError, OSError):
            self._events.append(ev0("recv", kind="fail", bufsize=bufsize))
            raise
        if out == b"":
            self._events.append(ev0("recv", kind="closed", bufsize=bufsize))
        else:
            self._events.append(ev0("recv", kind="data", bufsize=bufsize, data=list(out)))
        return out


def run_wrapper(data, script, calls, encoding=0, bufsize=4096):
    """
    calls: list of ("read", n) | ("readline",)
    -> (events, results list)
    """
    from pyrtcm.socketwrapper import SocketWrapper

    events = []
    sock = LoggingSocket(data, script, events)
    results = []
    try:
        try:
            w = SocketWrapper(sock, encoding=encoding, bufsize=bufsize)
        except BaseException as err:  # pylint: disable=broad-except
            if isinstance(err, (KeyboardInterrupt, SystemExit, MemoryError, common.Watchdog)):
                raise
            # a failed first receive is a failed receive like any other: the constructor does not raise
            events.append(ev0("exception", op=type(err).__name__))
            return events, [b"<exception " + type(err).__name__.encode() + b">"]
        for c in calls:
            try:
                if c[0] == "read":
                    events.append(ev0("call", op="read", n=int(c[1])))
                    out = w.read(c[1])
                    events.append(ev0("ret", op="read", data=list(out), buffer=list(w.buffer)))
                else:
                    events.append(ev0("call", op="readline"))
                    out = w.readline()
                    done = out[-2:] == b"\r\n"
                    events.append(ev0("retdone" if done else "ret", op="readline", data=list(out), buffer=list(w.buffer)))
            except BaseException as err:  # pylint: disable=broad-except
                if isinstance(err, (KeyboardInterrupt, SystemExit, MemoryError, common.Watchdog)):
                    raise
                # the wrapper never raises out of read()/readline(): an event no spec action explains
                events.append(ev0("exception", op=type(err).__name__))
                results.append(b"<exception " + type(err).__name__.encode() + b">")
                break
            results.append(bytes(out))
            if w.in_waiting() != len(w.buffer):
                events.append(ev0("bad-in_waiting"))
    finally:
        sock.close()
    return events, results


def inflate_dict(chunks, encoding):
    """[(compressed, inflated)] for the chunks of one body under `encoding` (zlib is trusted glue, DESIGN 6)"""
    out = []
    for c in chunks:
        d = c
        try:
            if encoding & 2:
                d = zlib.decompress(d, wbits=zlib.MAX_WBITS | 16)
            if encoding & 4:
                d = zlib.decompress(d, wbits=zlib.MAX_WBITS)
            if encoding & 8:
                d = zlib.decompress(d, wbits=-zlib.MAX_WBITS)
        except zlib.error:
            d = c
        if d != c:
            out.append([list(c), list(d)])
    return out


def compress(data, encoding):
    if encoding & 8:
        co = zlib.compressobj(wbits=-zlib.MAX_WBITS)
        data = co.compress(data) + co.flush()
    if encoding & 4:
        data = zlib.compress(data)
    if encoding & 2:
        co = zlib.compressobj(wbits=zlib.MAX_WBITS | 16)
        data = co.compress(data) + co.flush()
    return data


def chunked_body(rnd, pieces, encoding, zero=True, upper=None):
    """-> (encoded stream bytes, list of on-the-wire chunk datas, decoded concatenation)"""
    wire = b""
    datas = []
    for p in pieces:
        c = compress(p, encoding) if encoding & 14 else p
        datas.append(c)
        h = f"{len(c):x}"
        if upper if upper is not None else rnd.random() < 0.5:
            h = h.upper()
        wire += h.encode() + b"\r\n" + c + b"\r\n"
    if zero:
        wire += b"0\r\n\r\n"
    return wire, datas, b"".join(pieces)


CFG = """SPECIFICATION TSpec
CONSTANTS Chunked = %s
 BufSize = 4096
 Inflate <- TrInflate
%s
CHECK_DEADLOCK FALSE
"""


def judge(traces, chunked, inflate=(), shards=16, heap="768m", timeout=3000, invariants=True):
    if not traces:
        return {}, []
    order = sorted(traces, key=lambda t: -sum(len(e["data"]) + len(e["buffer"]) + 8 for e in t["ev"]))
    nsh = max(1, min(shards, len(traces)))
    buckets = [[] for _ in range(nsh)]
    loads = [0] * nsh
    for t in order:
        i = loads.index(min(loads))
        buckets[i].append(t)
        loads[i] += sum(len(e["data"]) + len(e["buffer"]) + 8 for e in t["ev"])
    jobs = []
    for i, b in enumerate(buckets):
        path = os.path.join(common.scratch(), f"str-{os.getpid()}-{id(traces) % 100000}-{i}.json")
        with open(path, "w", encoding="utf-8") as f:
            json.dump({"traces": b, "inflate": list(inflate)}, f)
        # (heap by the size of the shard: TLC's Json module needs some 40 bytes per byte of JSON)
        mb = os.path.getsize(path) / 1e6
        heap_i = heap if mb < 6 else f"{min(3072, int(mb * 45) + 768)}m"
        jobs.append(dict(module="SockTrace", cfg=CFG % (("TRUE", "") if chunked else ("FALSE", "INVARIANT PrefixOK\nINVARIANT SizeOK" if invariants else "")), env={"VERIF_TRACES": path}, heap=heap_i, timeout=timeout))
    results = tlc.run_many(jobs)
    verdicts = {}
    for res in results:
        if res.invariant:
            # an invariant of SockBuf broken on a real execution = the code left the specified behaviour
            for t in res.tuples("SVERDICT"):
                verdicts[t[1]] = (t[2], t[3], t[4], t[5])
            raise MachineryFailure(f"SockTrace: invariant {res.invariant} violated\n" + "\n".join(res.out.splitlines()[-60:]))
        if not res.ok():
            lines = res.out.splitlines()
            first = next((i for i, ln in enumerate(lines) if "Error" in ln or "Exception" in ln), 0)
            raise MachineryFailure("SockTrace TLC failure: " + str(res.error) + "\n" + "\n".join(lines[first:first + 25]) + "\n...\n" + "\n".join(lines[-40:]))
        for t in res.tuples("SVERDICT"):
            verdicts[t[1]] = (t[2], t[3], t[4], t[5])
    missing = [t["tid"] for t in traces if t["tid"] not in verdicts]
    if missing:
        raise MachineryFailure(f"SockTrace: {len(missing)} traces without verdict, e.g. {missing[:5]}")
    return verdicts, results
