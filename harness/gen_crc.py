"""
Untrusted CRC-24Q tooling for GENERATORS only (verdicts never come from here):
 * solve_tail(prefix, target): the 3 bytes T with crc24q(prefix + T) == target
   (the map T -> crc is affine and bijective over GF(2)^24)
 * twin(payload): a different payload of the same length whose FRAME has the same CRC-24Q
   (payload xor a shifted copy of the generator polynomial)
"""

from .decode_rec import crc24q, frame_of

POLY = 0x1864CFB


def solve_tail(prefix: bytes, target: int) -> bytes:
    base = crc24q(prefix + b"\x00\x00\x00")
    cols = [crc24q(prefix + (1 << i).to_bytes(3, "big")) ^ base for i in range(24)]
    want = target ^ base
    # Gaussian elimination over GF(2): find x with XOR_{i in x} cols[i] == want
    rows = [(cols[i], 1 << i) for i in range(24)]
    piv = {}
    for val, comb in rows:
        for b in sorted(piv, reverse=True):
            if val >> b & 1:
                val ^= piv[b][0]
                comb ^= piv[b][1]
        if val:
            piv[val.bit_length() - 1] = (val, comb)
    x = 0
    for b in sorted(piv, reverse=True):
        if want >> b & 1:
            want ^= piv[b][0]
            x ^= piv[b][1]
    if want:
        raise ValueError("no solution")
    t = x.to_bytes(3, "big")
    assert crc24q(prefix + t) == target
    return t


def twin(payload: bytes, rnd, keep=3):
    """payload' != payload, same length, frame_of(payload')[-3:] == frame_of(payload)[-3:]; first `keep` bytes untouched"""
    nbits = len(payload) * 8
    room = nbits - keep * 8 - 25
    if room < 0:
        return None
    shift = rnd.randrange(room + 1)          # distance of the pattern's LSB from the end of the payload
    v = int.from_bytes(payload, "big") ^ (POLY << shift)
    out = v.to_bytes(len(payload), "big")
    assert frame_of(out)[-3:] == frame_of(payload)[-3:] and out != payload and out[:keep] == payload[:keep]
    return out
