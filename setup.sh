#!/bin/sh
# Offline setup: nothing to build - TLC (java), /venv python and the TLA+ modules are used as they are.
set -e
cd "$(dirname "$0")"
java -version >/dev/null 2>&1
test -f /opt/veriftools/tla/tla2tools.jar
/venv/bin/python -c "import sys; sys.path.insert(0, '/repo/src'); import pyrtcm"
mkdir -p evidence replays
chmod +x check
echo "setup ok"
